//go:build verif

package verifharness

import (
	"errors"
	"fmt"
	"sync"
	"testing"
	"testing/synctest"
	"time"

	"github.com/failsafe-go/failsafe-go"
	"github.com/failsafe-go/failsafe-go/circuitbreaker"
	"github.com/failsafe-go/failsafe-go/fallback"
	"github.com/failsafe-go/failsafe-go/hedgepolicy"
	"github.com/failsafe-go/failsafe-go/retrypolicy"
)

// Direct probes (Corr/Probe.v) of compositions Model/Exec.v does not cover -- a hedge policy AROUND other policies -- with
// oracles fixed by the properties themselves, under the virtual clock.

// C16 / C17: two hedge policies in one stack.  Every hedge that is started is announced by exactly one OnHedge event of the
// policy that started it, so the OnHedge events of both policies together are as many as ExecutionInfo.Hedges() says.
func driveNestedHedgeProbes(t *testing.T, name string) {
	w := NewCaseWriterNamed(t, name, "Corr.Probe")
	trials, bad, detail := 0, 0, ""
	for _, between := range []string{"", "retry", "fallback"} {
		for _, fnDur := range []time.Duration{40 * time.Millisecond, 18 * time.Millisecond, 70 * time.Millisecond} {
			trials++
			synctest.Test(t, func(t *testing.T) {
				var mu sync.Mutex
				outerEv, innerEv := 0, 0
				outer := hedgepolicy.BuilderWithDelay[int](10 * time.Millisecond).WithMaxHedges(1).
					OnHedge(func(failsafe.ExecutionEvent[int]) { mu.Lock(); outerEv++; mu.Unlock() }).Build()
				inner := hedgepolicy.BuilderWithDelay[int](25 * time.Millisecond).WithMaxHedges(1).
					OnHedge(func(failsafe.ExecutionEvent[int]) { mu.Lock(); innerEv++; mu.Unlock() }).Build()
				pols := []failsafe.Policy[int]{outer}
				switch between {
				case "retry":
					pols = append(pols, retrypolicy.Builder[int]().WithMaxRetries(0).Build())
				case "fallback":
					pols = append(pols, fallback.BuilderWithResult[int](9).HandleErrors(errors.New("an error nothing returns")).Build())
				}
				pols = append(pols, inner)
				hedges := -1
				ex := failsafe.NewExecutor[int](pols...).OnDone(func(e failsafe.ExecutionDoneEvent[int]) { hedges = e.Hedges() })
				ex.GetWithExecution(func(e failsafe.Execution[int]) (int, error) { time.Sleep(fnDur); return 1, nil })
				time.Sleep(time.Hour)
				synctest.Wait()
				mu.Lock()
				defer mu.Unlock()
				if outerEv+innerEv != hedges {
					bad++
					if detail == "" {
						detail = fmt.Sprintf("Hedge(%sHedge(fn)), fn takes %v: %d + %d OnHedge events but Hedges() = %d", between, fnDur, outerEv, innerEv, hedges)
					}
				}
			})
		}
	}
	addProbe(w, 20, "two hedge policies in one stack (nothing, a retry policy or a fallback between them): OnHedge events of both policies = Hedges() at completion", trials, bad, detail)
	w.Close("nested hedge policies under the virtual clock: the OnHedge events of the two policies together against ExecutionInfo.Hedges() as the completion listener reads it. Every case is non-trivial.", nil)
}

// C10: a fallback INSIDE a hedge policy, both hedged attempts fail and their failures overlap in time (the fallback's failure
// listener is slow for the first one): the fallback is applied once per failed attempt, and its function sees that very
// attempt's result and error.
func driveHedgedFallbackProbes(t *testing.T) {
	w := NewCaseWriterNamed(t, "C10p", "Corr.Probe")
	trials, bad, detail := 0, 0, ""
	errP, errH := errors.New("primary failed"), errors.New("hedge failed")
	for _, slow := range []time.Duration{0, 600 * time.Millisecond} {
		for _, hedgeDur := range []time.Duration{300 * time.Millisecond, 120 * time.Millisecond} {
			trials++
			synctest.Test(t, func(t *testing.T) {
				type seen struct {
					r   int
					err error
				}
				var mu sync.Mutex
				var applied []seen
				fb := fallback.BuilderWithFunc(func(e failsafe.Execution[int]) (int, error) {
					mu.Lock()
					defer mu.Unlock()
					applied = append(applied, seen{e.LastResult(), e.LastError()})
					return e.LastResult(), fmt.Errorf("unavailable: %w", e.LastError())
				}).OnFailure(func(e failsafe.ExecutionEvent[int]) {
					if errors.Is(e.LastError(), errP) {
						time.Sleep(slow)
					}
				}).Build()
				hp := hedgepolicy.BuilderWithDelay[int](50 * time.Millisecond).WithMaxHedges(1).CancelIf(func(_ int, err error) bool { return err == nil }).Build()
				failsafe.NewExecutor[int](hp, fb).GetWithExecution(func(e failsafe.Execution[int]) (int, error) {
					if e.IsHedge() {
						time.Sleep(hedgeDur)
						return 20, errH
					}
					time.Sleep(200 * time.Millisecond)
					return 10, errP
				})
				time.Sleep(time.Hour)
				synctest.Wait()
				mu.Lock()
				defer mu.Unlock()
				ok := len(applied) == 2
				for _, a := range applied {
					if !(a == seen{10, errP} || a == seen{20, errH}) {
						ok = false
					}
				}
				if ok && applied[0] == applied[1] {
					ok = false
				}
				if !ok {
					bad++
					if detail == "" {
						detail = fmt.Sprintf("listener takes %v, hedge fails after %v: the fallback function saw %v", slow, hedgeDur, applied)
					}
				}
			})
		}
	}
	addProbe(w, 21, "Hedge(Fallback(fn)), both attempts fail, overlapping: the fallback function is applied once per failure and sees that failure's LastResult / LastError", trials, bad, detail)
	w.Close("a fallback inside a hedge policy under the virtual clock, both hedged attempts failing with their own result and error while the fallback's failure listener is slow for one of them. Every case is non-trivial.", nil)
}

// C17: a hedge policy around a retry policy, the hedged branch is cancelled (the other branch won) while its retry policy is
// between two attempts -- in the retry delay, or in a slow OnRetry listener right before the next attempt: Executions counts
// the invocations of the function that completed, no more and no fewer, also when read after everything has settled.
func driveHedgedRetryCounterProbes(t *testing.T) {
	w := NewCaseWriterNamed(t, "C17h", "Corr.Probe")
	trials, bad, detail := 0, 0, ""
	for _, lsn := range []time.Duration{0, 30 * time.Millisecond} {
		for _, retryDelay := range []time.Duration{0, 5 * time.Millisecond, 60 * time.Millisecond} {
			for _, outerFallback := range []bool{false, true} {
				trials++
				synctest.Test(t, func(t *testing.T) {
					var mu sync.Mutex
					completed := 0
					var handle failsafe.Execution[int]
					rb := retrypolicy.Builder[int]().WithMaxRetries(2).WithDelay(retryDelay).
						OnRetry(func(e failsafe.ExecutionEvent[int]) {
							if e.IsHedge() {
								time.Sleep(lsn)
							}
						})
					pols := []failsafe.Policy[int]{hedgepolicy.BuilderWithDelay[int](10 * time.Millisecond).WithMaxHedges(1).Build(), rb.Build()}
					if outerFallback {
						pols = append([]failsafe.Policy[int]{fallback.BuilderWithResult[int](5).HandleErrors(errors.New("an error nothing returns")).Build()}, pols...)
					}
					doneExecs := -1
					ex := failsafe.NewExecutor[int](pols...).OnDone(func(e failsafe.ExecutionDoneEvent[int]) {
						mu.Lock()
						doneExecs = e.Executions() - completed // must be 0: read and compared at the same instant
						mu.Unlock()
					})
					ex.GetWithExecution(func(e failsafe.Execution[int]) (int, error) {
						mu.Lock()
						handle = e
						mu.Unlock()
						var r int
						var err error
						if e.IsHedge() {
							time.Sleep(time.Millisecond)
							err = errors.New("the hedged branch fails and is retried")
						} else {
							time.Sleep(40 * time.Millisecond)
							r = 1
						}
						mu.Lock()
						completed++
						mu.Unlock()
						return r, err
					})
					time.Sleep(time.Hour)
					synctest.Wait()
					mu.Lock()
					defer mu.Unlock()
					if doneExecs != 0 || handle.Executions() != completed {
						bad++
						if detail == "" {
							detail = fmt.Sprintf("OnRetry takes %v, retry delay %v, outer fallback %v: Executions - completed invocations = %d at completion; Executions = %d with %d invocations completed an hour later",
								lsn, retryDelay, outerFallback, doneExecs, handle.Executions(), completed)
						}
					}
				})
			}
		}
	}
	addProbe(w, 22, "Hedge(Retry(fn)), the hedged branch cancelled between two of its attempts: Executions = completed invocations at completion and after everything settled", trials, bad, detail)
	w.Close("a hedge policy around a retry policy under the virtual clock; the hedged branch fails, is retried and is cancelled (the other branch wins) during its retry delay or its OnRetry listener. Every case is non-trivial.", nil)
}

// C03 / C04: a delay function that takes time.  The breaker is open from the moment it opens -- which is after the delay
// function returned -- for the whole delay the function computed: RemainingDelay right after the failing execution returns is the
// full delay, the breaker still refuses one tick before the delay has elapsed and lets a trial through when it has.
func driveSlowDelayFuncProbes(t *testing.T, name string) {
	w := NewCaseWriterNamed(t, name, "Corr.Probe")
	trials, bad, detail := 0, 0, ""
	for _, took := range []time.Duration{0, 40 * time.Millisecond, 3 * time.Second} {
		for _, delay := range []time.Duration{100 * time.Millisecond, 5 * time.Second} {
			for _, from := range []string{"closed", "half-open"} {
				trials++
				synctest.Test(t, func(t *testing.T) {
					cb := circuitbreaker.Builder[int]().WithFailureThreshold(1).WithDelay(time.Hour).
						WithDelayFunc(func(failsafe.ExecutionAttempt[int]) time.Duration { time.Sleep(took); return delay }).Build()
					if from == "half-open" {
						cb.HalfOpen()
					}
					failsafe.NewExecutor[int](cb).Get(func() (int, error) { return 0, errors.New("failed") })
					ok := cb.IsOpen() && cb.RemainingDelay() == delay
					time.Sleep(delay - time.Nanosecond)
					if cb.TryAcquirePermit() {
						ok = false
					}
					time.Sleep(time.Nanosecond)
					if !cb.TryAcquirePermit() || !cb.IsHalfOpen() {
						ok = false
					}
					if !ok {
						bad++
						if detail == "" {
							detail = fmt.Sprintf("delay function takes %v and returns %v, breaker was %s: not open for exactly that delay from the moment it opened", took, delay, from)
						}
					}
				})
			}
		}
	}
	addProbe(w, 23, "a breaker opened by a failing execution whose delay function takes time: open for the full computed delay from the moment it opened", trials, bad, detail)
	w.Close("a circuit breaker with a delay function that itself takes (virtual) time, opened from the closed and from the half-open state by a failing execution; RemainingDelay, refusal one tick before the end of the delay, a trial at its end. Every case is non-trivial.", nil)
}
