//go:build verif

package verifharness

import (
	"fmt"
	"strings"
	"testing"
	"testing/synctest"
	"time"

	"github.com/failsafe-go/failsafe-go"
	"github.com/failsafe-go/failsafe-go/circuitbreaker"
)

// ---- C03: circuit breaker histories through the public API, under a virtual clock ----

// BCallD is one builder call (Coq: bcall).
type BCallD struct {
	K       string // FailureThreshold FailureThresholdRatio FailureThresholdPeriod FailureRateThreshold SuccessThreshold SuccessThresholdRatio Delay DelayFunc Handle
	A, B, C int64
	Tbl     [][2]int64 // DelayFunc: result -> delay
	Def     int64      // DelayFunc: default (-1 = no value)
	H       *CallD
}

func (b BCallD) Gallina() string {
	switch b.K {
	case "FailureThreshold", "SuccessThreshold":
		return fmt.Sprintf("(With%s %d)", b.K, b.A)
	case "FailureThresholdRatio", "SuccessThresholdRatio", "FailureThresholdPeriod":
		return fmt.Sprintf("(With%s %d %d)", b.K, b.A, b.B)
	case "FailureRateThreshold":
		return fmt.Sprintf("(WithFailureRateThreshold %d %d %d)", b.A, b.B, b.C)
	case "Delay":
		return fmt.Sprintf("(WithDelay %d)", b.A)
	case "DelayFunc":
		xs := make([]string, len(b.Tbl))
		for i, p := range b.Tbl {
			xs[i] = fmt.Sprintf("(%s, %s)", gZ(p[0]), gZ(p[1]))
		}
		return fmt.Sprintf("(WithDelayFunc (DFTable %s %s))", gList(xs), gZ(b.Def))
	default:
		return "(BHandle " + b.H.HandleGallina() + ")"
	}
}

type breakerLog struct {
	events []string
}

// lsnMask: which of OnClose / OnOpen / OnHalfOpen / OnStateChanged are registered (bits 0-3)
var lsnMask = 15

func buildBreaker(calls []BCallD, log *breakerLog) circuitbreaker.CircuitBreaker[int] {
	b := circuitbreaker.Builder[int]()
	for _, c := range calls {
		c := c
		switch c.K {
		case "FailureThreshold":
			b = b.WithFailureThreshold(uint(c.A))
		case "FailureThresholdRatio":
			b = b.WithFailureThresholdRatio(uint(c.A), uint(c.B))
		case "FailureThresholdPeriod":
			b = b.WithFailureThresholdPeriod(uint(c.A), time.Duration(c.B))
		case "FailureRateThreshold":
			b = b.WithFailureRateThreshold(uint(c.A), uint(c.B), time.Duration(c.C))
		case "SuccessThreshold":
			b = b.WithSuccessThreshold(uint(c.A))
		case "SuccessThresholdRatio":
			b = b.WithSuccessThresholdRatio(uint(c.A), uint(c.B))
		case "Delay":
			b = b.WithDelay(time.Duration(c.A))
		case "DelayFunc":
			b = b.WithDelayFunc(func(exec failsafe.ExecutionAttempt[int]) time.Duration {
				for _, p := range c.Tbl {
					if int64(exec.LastResult()) == p[0] {
						return time.Duration(p[1])
					}
				}
				return time.Duration(c.Def)
			})
		default:
			b = applyHandle(b, []CallD{*c.H})
		}
	}
	if log != nil {
		rec := func(tag int) func(circuitbreaker.StateChangedEvent) {
			return func(e circuitbreaker.StateChangedEvent) {
				m := e.Metrics()
				log.events = append(log.events, fmt.Sprintf("{| ev_tag := %d; ev_old := %d; ev_new := %d; ev_metrics := [%d; %d; %d; %d; %d] |}",
					tag, int(e.OldState), int(e.NewState), m.Executions(), m.Failures(), m.FailureRate(), m.Successes(), m.SuccessRate()))
			}
		}
		if lsnMask&1 != 0 {
			b = b.OnClose(rec(0))
		}
		if lsnMask&2 != 0 {
			b = b.OnOpen(rec(1))
		}
		if lsnMask&4 != 0 {
			b = b.OnHalfOpen(rec(2))
		}
		if lsnMask&8 != 0 {
			b = b.OnStateChanged(rec(3))
		}
	}
	return b.Build()
}

type BOpD struct {
	T int64 // offset from the bubble's start instant
	K string
	O OutD
}

func (o BOpD) Gallina(start int64) string {
	t := start + o.T
	switch o.K {
	case "RecordResult":
		return fmt.Sprintf("(%d, BRecordResult %s)", t, gZ(o.O.R))
	case "RecordError":
		return fmt.Sprintf("(%d, BRecordError %s)", t, o.O.Err.Gallina())
	case "Exec":
		return fmt.Sprintf("(%d, BExec %s)", t, o.O.Gallina())
	default:
		return fmt.Sprintf("(%d, B%s)", t, o.K)
	}
}

// runBreakerHistory returns, per op, the Gallina literal of the observation, and the bubble's start instant.
func runBreakerHistory(t *testing.T, calls []BCallD, hist []BOpD) (obs []string, start int64, changes int) {
	obs = make([]string, len(hist))
	synctest.Test(t, func(t *testing.T) {
		t0 := time.Now()
		start = t0.UnixNano()
		log := &breakerLog{}
		cb := buildBreaker(calls, log)
		for i, op := range hist {
			if d := op.T - int64(time.Since(t0)); d > 0 {
				time.Sleep(time.Duration(d))
			}
			log.events = nil
			val := 0
			switch op.K {
			case "RecordSuccess":
				cb.RecordSuccess()
			case "RecordFailure":
				cb.RecordFailure()
			case "RecordResult":
				cb.RecordResult(int(op.O.R))
			case "RecordError":
				cb.RecordError(op.O.Err.Build())
			case "TryAcquire":
				if cb.TryAcquirePermit() {
					val = 1
				}
			case "Open":
				cb.Open()
			case "HalfOpen":
				cb.HalfOpen()
			case "Close":
				cb.Close()
			case "Exec":
				r, e := op.O.Go()
				failsafe.Get(func() (int, error) { val = 1; return r, e }, cb)
			}
			m := cb.Metrics()
			changes += len(log.events) / 2
			obs[i] = fmt.Sprintf("{| ob_val := %d; ob_state := %d; ob_remaining := %d; ob_metrics := [%d; %d; %d; %d; %d]; ob_events := %s |}",
				val, int(cb.State()), int64(cb.RemainingDelay()), m.Executions(), m.Failures(), m.FailureRate(), m.Successes(), m.SuccessRate(),
				gList(log.events))
		}
	})
	return
}

var breakerPeriods = []int64{10, 100, 970, 1_000_000_000, 60_000_000_000}
// incl. the "stay open for good" idiom: the largest Duration, and one hour less
var breakerDelays = []int64{0, 1, 10_000_000, 1_000_000_000, 60_000_000_000, 1<<63 - 1, 1<<63 - 1 - 3_600_000_000_000}

type bgen struct {
	calls         []BCallD
	period, delay int64
	outcomes      []OutD
}

func genBreakerCfg(r *Rng) bgen {
	g := bgen{delay: 60_000_000_000}
	var fail, succ, rest []BCallD
	switch r.Intn(6) {
	case 0:
	case 1:
		fail = append(fail, BCallD{K: "FailureThreshold", A: int64(1 + r.Intn(4))})
	case 2:
		c := int64(1 + r.Intn(6))
		fail = append(fail, BCallD{K: "FailureThresholdRatio", A: 1 + r.I64n(c), B: c})
	case 3:
		g.period = Pick(r, breakerPeriods)
		fail = append(fail, BCallD{K: "FailureThresholdPeriod", A: int64(1 + r.Intn(4)), B: g.period})
	default:
		g.period = Pick(r, breakerPeriods)
		fail = append(fail, BCallD{K: "FailureRateThreshold", A: Pick(r, []int64{1, 20, 34, 50, 51, 67, 100}), B: int64(1 + r.Intn(6)), C: g.period})
	}
	switch r.Intn(4) {
	case 0:
		succ = append(succ, BCallD{K: "SuccessThreshold", A: int64(1 + r.Intn(3))})
	case 1:
		c := int64(1 + r.Intn(5))
		succ = append(succ, BCallD{K: "SuccessThresholdRatio", A: 1 + r.I64n(c), B: c})
	}
	if r.Chance(70) {
		g.delay = Pick(r, breakerDelays)
		rest = append(rest, BCallD{K: "Delay", A: g.delay})
	}
	if r.Chance(35) {
		d := BCallD{K: "DelayFunc", Def: Pick(r, []int64{-1, -1, 5, 2_000_000_000})}
		for _, res := range []int64{0, 1, 7} {
			if r.Chance(50) {
				d.Tbl = append(d.Tbl, [2]int64{res, Pick(r, []int64{-1, 0, 3, 1_000_000, 5_000_000_000})})
			}
		}
		rest = append(rest, d)
	}
	if r.Chance(35) {
		for i := 0; i < 1+r.Intn(2); i++ {
			h := randCall(r, Pick(r, callKinds))
			rest = append(rest, BCallD{K: "Handle", H: &h})
		}
	}
	// the builder calls in a random order (they commute within the guard)
	all := append(append(fail, succ...), rest...)
	for i := len(all) - 1; i > 0; i-- {
		j := r.Intn(i + 1)
		all[i], all[j] = all[j], all[i]
	}
	g.calls = all
	mk := func(d ErrD) *ErrD { return &d }
	g.outcomes = []OutD{{R: 0}, {R: 1}, {R: 7}, {R: 0, Err: mk(sent(0))}, {R: 0, Err: mk(sent(1))}, {R: 1, Err: mk(wrap(sent(0)))},
		{R: 7, Err: mk(ErrD{K: "TypedP", A: 1, B: 0})}, {R: 0, Err: mk(ErrD{K: "Open"})}}
	return g
}

func genBreakerHistory(r *Rng, g bgen, n int) []BOpD {
	var t int64
	bucket := g.period / 10
	hist := make([]BOpD, 0, n)
	kinds := []string{"RecordFailure", "RecordFailure", "RecordFailure", "RecordFailure", "RecordSuccess", "RecordSuccess", "RecordSuccess",
		"RecordResult", "RecordError", "TryAcquire", "TryAcquire", "TryAcquire", "Exec", "Exec", "Exec", "Exec", "Open", "HalfOpen", "Close", "Query"}
	lastOpen := int64(-1)
	_ = lastOpen
	for i := 0; i < n; i++ {
		switch r.Intn(16) {
		case 0, 1, 2, 3, 4:
		case 5:
			t++
		case 6:
			if bucket > 0 {
				t += Pick(r, []int64{bucket - 1, bucket, bucket + 1})
			}
		case 7:
			if bucket > 0 { // to the next slice boundary of absolute time, or one tick before it
				abs := int64(946684800_000000000) + t
				nb := abs - abs%bucket + bucket
				t += nb - abs - int64(r.Intn(2))
			}
		case 8:
			if g.delay < 1_000_000_000_000 { // the clock cannot be advanced by centuries
				t += Pick(r, []int64{g.delay - 1, g.delay, g.delay + 1})
			} else {
				t += 3_600_000_000_000
			}
		case 9:
			if g.period > 0 {
				t += Pick(r, []int64{g.period, g.period - 1, g.period * 9 / 10, g.period*9/10 + 1, 2 * g.period})
			}
		case 10:
			t += Pick(r, []int64{2, 3, 1_000_000 - 1, 5_000_000_000, 4_999_999_999, 2_000_000_000})
		case 11:
			if g.delay > 0 && g.delay < 1_000_000_000_000 {
				t += r.I64n(g.delay)
			}
		default:
			if bucket > 0 {
				t += r.I64n(3*bucket + 1)
			} else {
				t += r.I64n(50)
			}
		}
		if len(hist) > 0 && t < hist[len(hist)-1].T {
			t = hist[len(hist)-1].T
		}
		if t < 0 { // "delay - 1" with a zero delay before the first operation: the clock cannot go back
			t = 0
		}
		op := BOpD{T: t, K: Pick(r, kinds)}
		switch op.K {
		case "RecordResult":
			op.O = OutD{R: Pick(r, []int64{0, 1, 7, 2})}
		case "RecordError":
			o := Pick(r, g.outcomes[3:])
			op.O = OutD{Err: o.Err}
		case "Exec":
			op.O = Pick(r, g.outcomes)
			if r.Chance(60) { // bias towards plain failures so that breakers open
				op.O = g.outcomes[3]
			}
		}
		hist = append(hist, op)
	}
	return hist
}

func TestDrive_C03(t *testing.T) {
	driveSlowDelayFuncProbes(t, "C03p")
	w := NewCaseWriter(t, "C03", "FS.Corr.C03")
	w.shardCap = envInt("VERIF_SHARD", 150)
	rng := NewRng(envSeed())
	n := 600
	if envTier() == "thorough" {
		n = 12000
	}
	add := func(calls []BCallD, hist []BOpD, tag string) {
		// a third of the histories register only some of the four state-change listeners
		lsnMask = 15
		if tag != "corpus" && rng.Chance(33) {
			lsnMask = rng.Intn(16)
		}
		mask := lsnMask
		obs, start, changes := runBreakerHistory(t, calls, hist)
		lsnMask = 15
		cs := make([]string, len(calls))
		for i, c := range calls {
			cs[i] = c.Gallina()
			w.Stat("cfg=" + c.K)
		}
		hs := make([]string, len(hist))
		for i, o := range hist {
			hs[i] = o.Gallina(start)
			w.Stat("op=" + o.K)
		}
		w.Stat("state_changes=" + bucket(changes))
		w.Stat("gen=" + tag)
		cl, hl, ol := gList(cs), gList(hs), gList(obs)
		w.Add(func(id int) string {
			if mask != 15 {
				var tags []string
				for b := 0; b < 4; b++ {
					if mask&(1<<b) != 0 {
						tags = append(tags, fmt.Sprint(b))
					}
				}
				return fmt.Sprintf("CaseHistL %d %s %s\n  %s\n  %s", id, gList(tags), cl, hl, ol)
			}
			return fmt.Sprintf("CaseHist %d %s\n  %s\n  %s", id, cl, hl, ol)
		}, map[string]any{"registered_listeners(0=close,1=open,2=halfopen,3=generic)": mask, "builder_calls": strings.Join(cs, " "), "history_(unix_ns,op)": strings.Join(hs, "; "), "observed_after_each_op": strings.Join(obs, "; ")},
			changes >= 2, cl+hl)
	}
	// corpus
	add([]BCallD{{K: "FailureThresholdRatio", A: 2, B: 3}, {K: "SuccessThresholdRatio", A: 2, B: 3}, {K: "Delay", A: 1_000_000_000}},
		[]BOpD{{T: 0, K: "RecordFailure"}, {T: 0, K: "RecordSuccess"}, {T: 1, K: "RecordFailure"}, {T: 2, K: "TryAcquire"},
			{T: 1_000_000_000, K: "TryAcquire"}, {T: 1_000_000_001, K: "TryAcquire"}, {T: 1_000_000_001, K: "RecordSuccess"},
			{T: 1_000_000_002, K: "RecordFailure"}, {T: 1_000_000_002, K: "RecordFailure"}, {T: 1_000_000_003, K: "Query"}}, "corpus")
	add([]BCallD{{K: "FailureRateThreshold", A: 50, B: 4, C: 1000}, {K: "Delay", A: 10}, {K: "DelayFunc", Tbl: [][2]int64{{7, 3}}, Def: -1}},
		[]BOpD{{T: 0, K: "Exec", O: OutD{R: 0, Err: &ErrD{K: "Sent"}}}, {T: 50, K: "RecordSuccess"}, {T: 99, K: "RecordFailure"}, {T: 100, K: "RecordSuccess"},
			{T: 950, K: "Exec", O: OutD{R: 7, Err: &ErrD{K: "Sent"}}}, {T: 952, K: "TryAcquire"}, {T: 953, K: "TryAcquire"}, {T: 1100, K: "Query"}}, "corpus")
	for i := 0; i < n; i++ {
		g := genBreakerCfg(rng)
		add(g.calls, genBreakerHistory(rng, g, 5+rng.Intn(55)), "random")
	}
	// float64 rates through the public API: every (failures, executions) pair up to a bound
	maxN := 60
	if envTier() == "thorough" {
		maxN = 200
	}
	for nExec := 1; nExec <= maxN; nExec++ {
		cb := circuitbreaker.Builder[int]().WithFailureThresholdRatio(uint(nExec), uint(nExec)).WithDelay(0).Build()
		for s := 0; s < nExec; s++ {
			cb.RecordSuccess()
		}
		for f := 0; f <= nExec; f++ {
			if f > 0 {
				if f == nExec {
					break // the nExec-th failure opens the breaker; metrics then belong to the opened state's stats as well
				}
				cb.RecordFailure() // overwrites the oldest success
			}
			fr, sr := cb.Metrics().FailureRate(), cb.Metrics().SuccessRate()
			ff, nn := f, nExec
			w.Add(func(id int) string { return fmt.Sprintf("CaseRate %d %d %d %d %d", id, ff, nn, fr, sr) },
				map[string]any{"failures": ff, "executions": nn, "failure_rate": fr, "success_rate": sr}, false, fmt.Sprintf("rate%d/%d", ff, nn))
			w.Stat("rate_pairs")
		}
	}
	w.Close("histories of 5-59 operations (Record*, TryAcquirePermit, Open/HalfOpen/Close, executions through the breaker as a policy) on a fresh breaker built from a random list of builder calls (all four failure-threshold kinds x none/success threshold/success ratio x delay x delay function x handle conditions) under a virtual clock; the clock advances by 0, 1ns, slice+-1, to exact slice boundaries of absolute time, delay+-1, period, 9/10 period, random; after every operation State, RemainingDelay, the five metrics and the state-change events of all four listeners (with event metrics) are observed. Then every (failures, executions) pair up to a bound through FailureRate/SuccessRate. Non-trivial = at least two state changes; distinct by (builder calls, history).", nil)
}
