//go:build verif

package verifharness

import (
	"fmt"
	"strings"
	"sync"
	"testing"
	"testing/synctest"
	"time"

	"github.com/failsafe-go/failsafe-go"
	"github.com/failsafe-go/failsafe-go/hedgepolicy"
	"github.com/failsafe-go/failsafe-go/retrypolicy"
	"github.com/failsafe-go/failsafe-go/timeout"
)

// ---- C07, family C07h: Hedge(Retry(Timeout(fn))), one hedge; each branch has a script of its own (Corr/C07h.v) ----

type c07hCase struct {
	Delay, Limit     int64
	Retries          int
	RDelay           int64
	LsnDur           int64 // the retry policy's OnFailure listener takes this long
	ScriptP, ScriptH []FnStepD
}

func runC07Hedged(t *testing.T, c c07hCase) (lit string, js map[string]any, hedged, fired bool) {
	synctest.Test(t, func(t *testing.T) {
		t0 := time.Now()
		base := t0.UnixNano()
		now := func() int64 { return base + int64(time.Since(t0)) }
		var mu sync.Mutex
		var startsP, startsH, firedP, firedH []string
		idx := map[bool]int{}
		hp := hedgepolicy.BuilderWithDelay[int](time.Duration(c.Delay)).WithMaxHedges(1).Build()
		rb := retrypolicy.Builder[int]().WithMaxRetries(c.Retries)
		if c.RDelay > 0 {
			rb = rb.WithDelay(time.Duration(c.RDelay))
		}
		if c.LsnDur > 0 {
			rb = rb.OnFailure(func(failsafe.ExecutionEvent[int]) { time.Sleep(time.Duration(c.LsnDur)) })
		}
		to := timeout.Builder[int](time.Duration(c.Limit)).OnTimeoutExceeded(func(e failsafe.ExecutionDoneEvent[int]) {
			// (the event does not say which branch it belongs to: a firing is the hedged branch's when that branch entered the
			// function exactly one time limit earlier -- the two branches never enter it at the same instant)
			mu.Lock()
			defer mu.Unlock()
			f := now()
			for _, s := range startsH {
				if s == fmt.Sprint(f-c.Limit) {
					firedH = append(firedH, fmt.Sprint(f))
					return
				}
			}
			firedP = append(firedP, fmt.Sprint(f))
		}).Build()
		r, err := failsafe.NewExecutor[int](hp, rb.Build(), to).GetWithExecution(func(e failsafe.Execution[int]) (int, error) {
			mu.Lock()
			h := e.IsHedge()
			script := c.ScriptP
			if h {
				script = c.ScriptH
				startsH = append(startsH, fmt.Sprint(now()))
			} else {
				startsP = append(startsP, fmt.Sprint(now()))
			}
			k := idx[h]
			if k >= len(script) {
				k = len(script) - 1
			} else {
				idx[h]++
			}
			st := script[k]
			mu.Unlock()
			time.Sleep(time.Duration(st.Dur)) // nothing here watches for the cancellation
			return st.Out.Go()
		})
		end := now()
		time.Sleep(100 * time.Hour) // the losing branch runs on to its end
		synctest.Wait()
		mu.Lock()
		defer mu.Unlock()
		hedged, fired = len(startsH) > 0, len(firedP)+len(firedH) > 0
		ss := func(l []FnStepD) string {
			xs := make([]string, len(l))
			for i, s := range l {
				xs[i] = s.Gallina()
			}
			return gList(xs)
		}
		rc := fmt.Sprintf("{| r_fpol := build_fpolicy []; r_abort := build_abort []; r_max_retries := %d; r_max_duration := 0; r_return_last := false; r_delay := %d; r_lsn_dur := %d |}", c.Retries, c.RDelay, c.LsnDur)
		lit = fmt.Sprintf("%d %d %s %d\n  %s\n  %s\n  %s %d %s %s %s %s", base, c.Delay, rc, c.Limit, ss(c.ScriptP), ss(c.ScriptH), gOutcome(r, err), end,
			gList(startsP), gList(startsH), gList(firedP), gList(firedH))
		js = map[string]any{"hedge_delay": c.Delay, "time_limit": c.Limit, "max_retries": c.Retries, "retry_delay": c.RDelay, "primary_script": ss(c.ScriptP), "hedged_script": ss(c.ScriptH),
			"returned": gOutcome(r, err), "end": end - base, "entries_primary": strings.Join(startsP, " "), "entries_hedged": strings.Join(startsH, " "),
			"timeouts_primary": strings.Join(firedP, " "), "timeouts_hedged": strings.Join(firedH, " ")}
	})
	return
}

func genC07hCase(rng *Rng) c07hCase {
	c := c07hCase{Delay: int64(1+rng.Intn(6))*1024 + 100, Limit: int64(2+rng.Intn(6))*1024 + 37, Retries: rng.Intn(4), RDelay: Pick(rng, []int64{0, 0, 2048 + 11})}
	step := func(i int) FnStepD {
		s := FnStepD{Out: genOutcome(rng)}
		switch rng.Intn(5) {
		case 0:
			s.Dur = int64(rng.Intn(2)) * 512 // quick
		case 1:
			s.Dur = c.Limit/2 + int64(i)
		case 2:
			s.Dur = c.Limit + 1024 + int64(3*i) // outlasts the limit: ErrExceeded for this attempt
		case 3:
			s.Dur = 3*c.Limit + 7 + int64(5*i)
		default:
			s.Dur = int64(rng.Intn(12))*1024 + 3 + int64(7*i)
		}
		return s
	}
	for i := 0; i <= c.Retries; i++ {
		c.ScriptP = append(c.ScriptP, step(i))
		c.ScriptH = append(c.ScriptH, step(i+4))
	}
	if rng.Chance(25) {
		c.LsnDur = int64(1+rng.Intn(4))*1024 + 77
	}
	if rng.Chance(15) && c.Retries > 0 {
		// both branches fail while the OTHER one's failure listener is still running: one budget, booked per failure
		c.LsnDur = 4096 + 77
		c.RDelay = 0
		c.Delay = 1024 + 100
		for i := range c.ScriptP {
			c.ScriptP[i] = FnStepD{Out: OutD{Err: &ErrD{K: "Sent", A: 0}}, Dur: int64(100 + 3*i)}
			c.ScriptH[i] = FnStepD{Out: OutD{Err: &ErrD{K: "Sent", A: 1}}, Dur: int64(200 + 5*i)}
		}
	} else if rng.Chance(20) && c.Retries > 0 {
		// both branches fail fast while the other one waits out its retry delay: they draw on one budget
		c.RDelay = c.Delay + 4096 + 11
		for i := range c.ScriptP {
			c.ScriptP[i] = FnStepD{Out: OutD{Err: &ErrD{K: "Sent", A: 0}}, Dur: int64(100 + 3*i)}
			c.ScriptH[i] = FnStepD{Out: OutD{Err: &ErrD{K: "Sent", A: 1}}, Dur: int64(200 + 5*i)}
		}
	} else if rng.Chance(60) {
		// the primary branch is slow enough for the hedge to start, and the hedged branch's first attempt times out while it
		// still has retries to use
		c.ScriptP[0].Dur = c.Delay + 6*c.Limit + 13
		c.ScriptH[0].Dur = c.Limit + 1024 + 5
		if len(c.ScriptH) > 1 && rng.Bool() {
			c.ScriptH[1] = FnStepD{Out: OutD{R: 7}, Dur: 256 + 9}
		}
	}
	return c
}

func driveC07Hedged(t *testing.T) {
	w := NewCaseWriterNamed(t, "C07h", "Corr.C07h")
	w.Extra = "Definition K := Eval vm_compute in skipped_ids cases.\nPrint K.\n"
	rng := NewRng(envSeed() + 77)
	n := 250
	if envTier() == "thorough" {
		n = 8000
	}
	for i := 0; i < n; i++ {
		c := genC07hCase(rng)
		lit, js, hedged, fired := runC07Hedged(t, c)
		w.Add(func(id int) string { return fmt.Sprintf("mk_case %d %s", id, lit) }, js, hedged && fired, lit)
		if hedged {
			w.Stat("hedge_started")
		}
		if fired {
			w.Stat("timeout_fired")
		}
		w.Stat(fmt.Sprintf("max_retries=%d", c.Retries))
	}
	w.Close("Hedge(Retry(Timeout(fn))) with one hedge: hedge delay 1-6 us, time limit 2-7 us, 0-3 retries with no or a 2 us delay, and for each of the two branches a script of its own (outcome and duration per attempt: quick, limit/2, just over the limit, 3x the limit, random; nothing watches for the cancellation). Observed: what the caller got and when, and per branch the instants at which the function was entered and at which OnTimeoutExceeded fired, compared up to the instant the hedge returned. Non-trivial = the hedged branch started and some time limit was exceeded; distinct by inputs.", nil)
}
