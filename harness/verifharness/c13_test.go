//go:build verif

package verifharness

import (
	"fmt"
	"math"
	"math/big"
	"strings"
	"testing"
	"testing/synctest"
	"time"

	"github.com/failsafe-go/failsafe-go"
	"github.com/failsafe-go/failsafe-go/internal/util"
	"github.com/failsafe-go/failsafe-go/retrypolicy"
)

// ---- C13: retry delays ----

func flLit64(f float64) string {
	r := new(big.Rat).SetFloat64(f)
	return fmt.Sprintf("(%s, %s)", gBig(r.Num()), r.Denom().String())
}
func flLit32(f float32) string { return flLit64(float64(f)) }
func gBig(n *big.Int) string {
	if n.Sign() < 0 {
		return "(" + n.String() + ")"
	}
	return n.String()
}

type DCfg struct {
	Delay, MaxDelay int64
	Factor          float32
	Min, Max        int64
	Jitter          int64
	JitterFactor    float32
	MaxDuration     int64
	Order           int // order in which the independent builder option groups are applied (0..23)
	// harness only (virtual time): how long the policy's failure listener and the delay function take; the model reads
	// the scheduling instant, which is after both
	LsnSleep, DfSleep int64
	// harness only: a delay setter of another kind called on the same builder BEFORE the one that counts, which replaces it
	// ("random" before backoff / fixed, "backoff" before random, "delay" before backoff / random)
	Pre string
}

func (c DCfg) Gallina() string {
	return fmt.Sprintf("{| d_delay := %d; d_max_delay := %d; d_factor := %s; d_min := %d; d_max := %d; d_jitter := %d; d_jitter_factor := %s; d_max_duration := %d |}",
		c.Delay, c.MaxDelay, flLit32(c.Factor), c.Min, c.Max, c.Jitter, flLit32(c.JitterFactor), c.MaxDuration)
}

func (c DCfg) Build(tbl [][2]int64, maxRetries int, onSched func(failsafe.ExecutionScheduledEvent[int])) retrypolicy.RetryPolicy[int] {
	b := retrypolicy.Builder[int]().WithMaxRetries(maxRetries)
	// the independent option groups commute: they are applied in an order chosen by the generator
	groups := []func(){
		func() {
			switch c.Pre {
			case "random":
				b = b.WithRandomDelay(53*time.Millisecond, 59*time.Millisecond)
			case "backoff":
				b = b.WithBackoff(47*time.Millisecond, 470*time.Millisecond)
			case "delay":
				b = b.WithDelay(43 * time.Millisecond)
			}
			switch {
			case c.MaxDelay != 0:
				if c.Factor == 2 {
					b = b.WithBackoff(time.Duration(c.Delay), time.Duration(c.MaxDelay))
				} else {
					b = b.WithBackoffFactor(time.Duration(c.Delay), time.Duration(c.MaxDelay), c.Factor)
				}
			case c.Delay != 0:
				b = b.WithDelay(time.Duration(c.Delay))
			case c.Min != 0:
				b = b.WithRandomDelay(time.Duration(c.Min), time.Duration(c.Max))
			}
		},
		func() {
			if c.Jitter != 0 {
				b = b.WithJitter(time.Duration(c.Jitter))
			}
			if c.JitterFactor != 0 {
				b = b.WithJitterFactor(c.JitterFactor)
			}
		},
		func() {
			if c.MaxDuration != 0 {
				b = b.WithMaxDuration(time.Duration(c.MaxDuration))
			}
		},
		func() {
			if len(tbl) > 0 {
				b = b.WithDelayFunc(func(e failsafe.ExecutionAttempt[int]) time.Duration {
					time.Sleep(time.Duration(c.DfSleep))
					for _, p := range tbl {
						if int64(e.Attempts()) == p[0] {
							return time.Duration(p[1])
						}
					}
					return -1
				})
			}
		},
	}
	ord := c.Order
	for n := len(groups); n > 0; n-- {
		k := ord % n
		ord /= n
		groups[k]()
		groups = append(groups[:k], groups[k+1:]...)
	}
	if c.LsnSleep != 0 {
		b = b.OnFailure(func(failsafe.ExecutionEvent[int]) { time.Sleep(time.Duration(c.LsnSleep)) })
	}
	return b.OnRetryScheduled(onSched).Build()
}

var magnitudes = []int64{1_000, 1_000_000, 16_777_217, 1_000_000_000, 60_000_000_000, 3_600_000_000_000, 36_000_000_000_000}

func TestDrive_C13(t *testing.T) {
	driveReenteredBackoffProbes(t)
	w := NewCaseWriter(t, "C13", "FS.Corr.C13")
	rng := NewRng(envSeed())
	thorough := envTier() == "thorough"
	draws64 := func() float64 {
		switch rng.Intn(6) {
		case 0:
			return 0
		case 1:
			return 0.5
		case 2:
			return math.Nextafter(1, 0)
		case 3:
			return math.Nextafter(0.5, 1)
		default:
			return float64(rng.U64()>>11) / (1 << 53)
		}
	}
	draws32 := func() float32 {
		switch rng.Intn(6) {
		case 0:
			return 0
		case 1:
			return 0.5
		case 2:
			return math.Nextafter32(1, 0)
		default:
			return float32(rng.U64()>>40) / (1 << 24)
		}
	}
	nHelper := 1500
	if thorough {
		nHelper = 40000
	}
	for i := 0; i < nHelper; i++ {
		mag := Pick(rng, magnitudes)
		delay := mag + rng.I64n(mag)
		switch i % 3 {
		case 0:
			lo := 1 + rng.I64n(delay)
			hi := lo + rng.I64n(delay)
			d := draws64()
			obs := util.RandomDelayInRange(lo, hi, d)
			w.Add(func(id int) string { return fmt.Sprintf("CaseRange %d %d %d %s %s", id, lo, hi, flLit64(d), gZ(obs)) },
				map[string]any{"helper": "RandomDelayInRange", "min": lo, "max": hi, "draw": d, "observed": obs}, true, fmt.Sprint("R", lo, hi, d))
			w.Stat("helper=RandomDelayInRange")
		case 1:
			j := 1 + rng.I64n(delay)
			d := draws64()
			obs := util.RandomDelay(delay, j, d)
			w.Add(func(id int) string { return fmt.Sprintf("CaseJitter %d %d %d %s %s", id, delay, j, flLit64(d), gZ(obs)) },
				map[string]any{"helper": "RandomDelay", "delay": delay, "jitter": j, "draw": d, "observed": obs}, true, fmt.Sprint("J", delay, j, d))
			w.Stat("helper=RandomDelay")
		default:
			jf := Pick(rng, []float32{0.25, 0.1, 0.5, 1, 0.001, 0.333})
			d := draws32()
			obs := util.RandomDelayFactor(delay, jf, d)
			w.Add(func(id int) string { return fmt.Sprintf("CaseFactor %d %d %s %s %s", id, delay, flLit32(jf), flLit32(d), gZ(obs)) },
				map[string]any{"helper": "RandomDelayFactor", "delay": delay, "jitter_factor": jf, "draw": d, "observed": obs}, true, fmt.Sprint("F", delay, jf, d))
			w.Stat("helper=RandomDelayFactor")
		}
	}
	// end-to-end sequences
	nSeq := 400
	if thorough {
		nSeq = 12000
	}
	for i := 0; i < nSeq; i++ {
		mag := Pick(rng, magnitudes)
		c := DCfg{Factor: 2, Order: rng.Intn(24)}
		kind := Pick(rng, []string{"fixed", "backoff", "backoff", "backoff", "random", "none"})
		switch kind {
		case "fixed":
			c.Delay = mag + rng.I64n(mag)
		case "backoff":
			c.Delay = mag + rng.I64n(mag)
			c.Factor = Pick(rng, []float32{2, 2, 1.5, 3, 1, 1.1, 2.5, 10})
			c.MaxDelay = c.Delay * Pick(rng, []int64{1, 3, 7, 40, 1000})
		case "random":
			c.Min = 1 + rng.I64n(mag)
			c.Max = c.Min + rng.I64n(mag)
		}
		if rng.Chance(30) {
			switch kind {
			case "backoff":
				c.Pre = Pick(rng, []string{"random", "delay"})
			case "random":
				c.Pre = Pick(rng, []string{"backoff", "delay"})
			case "fixed":
				c.Pre = "random"
			}
		}
		switch rng.Intn(4) {
		case 0:
			c.Jitter = 1 + rng.I64n(mag/2+1)
		case 1:
			c.JitterFactor = Pick(rng, []float32{0.25, 0.1, 0.5})
		case 2:
			// both configured: the duration is the one that is applied, the factor is not stacked on top of it
			c.Jitter = 1 + rng.I64n(mag/2+1)
			c.JitterFactor = Pick(rng, []float32{0.25, 0.1, 0.5})
		}
		n := 2 + rng.Intn(9)
		if rng.Chance(35) {
			c.MaxDuration = mag * int64(1+rng.Intn(6))
		}
		if rng.Chance(30) {
			c.LsnSleep = 1 + rng.I64n(mag/3+1) // a slow failure listener: its time counts against the max duration
		}
		if rng.Chance(30) {
			c.DfSleep = 1 + rng.I64n(mag/3+1) // and so does a slow delay function
		}
		var tbl [][2]int64
		if rng.Chance(30) {
			for k := 1; k <= n; k++ {
				if rng.Chance(30) {
					tbl = append(tbl, [2]int64{int64(k), Pick(rng, []int64{0, 1, mag / 3, mag * 2, -1})})
				}
			}
		}
		var obs []string
		nonneg := true
		synctest.Test(t, func(t *testing.T) {
			t0 := time.Now()
			var sched []int64
			var delays []int64
			var starts []int64
			rp := c.Build(tbl, n, func(e failsafe.ExecutionScheduledEvent[int]) {
				delays = append(delays, int64(e.Delay))
				sched = append(sched, int64(time.Since(t0)))
			})
			failsafe.Get(func() (int, error) {
				starts = append(starts, int64(time.Since(t0)))
				return 0, sent(0).Build()
			}, rp)
			for k := range delays {
				next := int64(-1)
				if k+1 < len(starts) {
					next = starts[k+1]
				} else {
					next = sched[k] + delays[k] // the execution gave up (max duration): nothing more to start
				}
				obs = append(obs, fmt.Sprintf("(%s, %d, %d)", gZ(delays[k]), sched[k], next))
				if delays[k] < 0 {
					nonneg = false
				}
			}
		})
		ts := make([]string, len(tbl))
		for k, p := range tbl {
			ts[k] = fmt.Sprintf("(%d, %s)", p[0], gZ(p[1]))
		}
		cg, tg, og := c.Gallina(), gList(ts), gList(obs)
		lag := c.LsnSleep
		if len(tbl) > 0 {
			lag += c.DfSleep
		}
		w.Add(func(id int) string { return fmt.Sprintf("CaseSeq %d %s %s %d %s", id, cg, tg, lag, og) },
			map[string]any{"config": cg, "delay_func_by_attempt": strings.Join(ts, " "), "listener_and_delay_function_take_ns": lag, "observed_(delay,scheduled_at,next_attempt_at)": strings.Join(obs, " ")},
			len(obs) >= 2, cg+tg)
		w.Stat("seq=" + kind)
		if c.Jitter != 0 || c.JitterFactor != 0 {
			w.Stat("seq_jittered")
		}
		if c.MaxDuration != 0 {
			w.Stat("seq_max_duration")
		}
		if !nonneg {
			w.Stat("negative_delay_observed")
		}
	}
	w.Close("(a) util.RandomDelayInRange / RandomDelay / RandomDelayFactor called with explicit draws (0, 1/2, the largest value below 1, random) at magnitudes 1us..10h: bit-exact comparison with the integer-arithmetic float model; (b) executions whose function fails at once, under a virtual clock: every delay kind (fixed, backoff with factors 1..10 and maxDelay, random range, delay function by attempt) with jitter / jitter factor / max duration, failure listeners and delay functions that take (virtual) time: OnRetryScheduled delay, scheduling instant and next attempt's start instant; un-randomised configurations compared exactly, randomised ones against the envelope. Non-trivial = helper cases, and sequences with at least two delays; distinct by inputs.", nil)
}
