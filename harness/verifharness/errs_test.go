//go:build verif

package verifharness

import (
	"context"
	"errors"
	"fmt"
	"strings"
	"sync"

	"github.com/failsafe-go/failsafe-go"
	"github.com/failsafe-go/failsafe-go/bulkhead"
	"github.com/failsafe-go/failsafe-go/circuitbreaker"
	"github.com/failsafe-go/failsafe-go/ratelimiter"
	"github.com/failsafe-go/failsafe-go/retrypolicy"
	"github.com/failsafe-go/failsafe-go/timeout"
)

// ErrD describes an error value; it corresponds one to one to the Coq type
// `err` of Base/Values.v. One canonical Go value exists per description.
type ErrD struct {
	K    string // constructor name without the leading E
	A, B int64
	Sub  []ErrD // EWrap: 1, EJoin: n, EExceeded: 0 or 1
}

func (d ErrD) Gallina() string {
	switch d.K {
	case "Sent":
		return fmt.Sprintf("(ESent %d)", d.A)
	case "TypedV":
		return fmt.Sprintf("(ETypedV %d %s)", d.A, gZ(d.B))
	case "TypedVP":
		return fmt.Sprintf("(ETypedVP %d %d)", d.A, d.B)
	case "TypedP":
		return fmt.Sprintf("(ETypedP %d %d)", d.A, d.B)
	case "Wrap":
		return "(EWrap " + d.Sub[0].Gallina() + ")"
	case "Join":
		xs := make([]string, len(d.Sub))
		for i, s := range d.Sub {
			xs[i] = s.Gallina()
		}
		return "(EJoin " + gList(xs) + ")"
	case "CustomIs":
		return fmt.Sprintf("(ECustomIs %d %d)", d.A, d.B)
	case "Exceeded":
		if len(d.Sub) == 0 {
			return fmt.Sprintf("(EExceeded %s None)", gZ(d.A))
		}
		return fmt.Sprintf("(EExceeded %s (Some %s))", gZ(d.A), d.Sub[0].Gallina())
	default:
		return "E" + d.K
	}
}

func (d ErrD) String() string { return d.Gallina() }

// typed errors used by the harness
type ValErr0 struct{ N int64 }
type ValErr1 struct{ N int64 }
type ValErr2 struct{ N int64 }
type PtrErr0 struct{ N int64 }
type PtrErr1 struct{ N int64 }
type PtrErr2 struct{ N int64 }

func (e ValErr0) Error() string  { return fmt.Sprintf("valerr0(%d)", e.N) }
func (e ValErr1) Error() string  { return fmt.Sprintf("valerr1(%d)", e.N) }
func (e ValErr2) Error() string  { return fmt.Sprintf("valerr2(%d)", e.N) }
// (nil-safe: the typed nil pointers (*PtrErrN)(nil) are error values too -- non-nil interfaces of a definite type)
func (e *PtrErr0) Error() string {
	if e == nil {
		return "ptrerr0(nil)"
	}
	return fmt.Sprintf("ptrerr0(%d)", e.N)
}
func (e *PtrErr1) Error() string {
	if e == nil {
		return "ptrerr1(nil)"
	}
	return fmt.Sprintf("ptrerr1(%d)", e.N)
}
func (e *PtrErr2) Error() string {
	if e == nil {
		return "ptrerr2(nil)"
	}
	return fmt.Sprintf("ptrerr2(%d)", e.N)
}

// typedNilB: ETypedP t typedNilB is built as the typed nil pointer (*PtrErr<t>)(nil): an error (err != nil) of type *PtrErr<t>,
// equal only to itself.  For the library's classification it is an ordinary value of its type.
const typedNilB = 99

// asShimTy: ETypedP asShimTy n is built as an error whose As(any) method claims to be every type (a compatibility shim): the
// library's type matching walks Unwrap chains and compares types, it does not consult As methods, so for it this is a plain
// pointer error of a type nobody registers (the registered types are 0..2), equal only to itself.
const asShimTy = 7

// sliceTy: ETypedV sliceTy n is built as a slice-based error value (like scanner.ErrorList or a validator's error list): its
// dynamic type cannot be hashed or compared.  Nothing registers the type, and it is only ever an outcome, never a target.
const sliceTy = 8

type sliceErr []int64

func (e sliceErr) Error() string { return fmt.Sprintf("slice-error%v", []int64(e)) }

type asShimErr struct{ n int64 }

func (e *asShimErr) Error() string   { return fmt.Sprintf("as-shim(%d)", e.n) }
func (e *asShimErr) As(any) bool     { return true }

type CustomIsErr struct {
	N      int64
	Target error
}

func (e *CustomIsErr) Error() string        { return fmt.Sprintf("customis(%d)", e.N) }
func (e *CustomIsErr) Is(target error) bool { return target == e.Target }

var (
	regMu   sync.Mutex
	regByD  = map[string]error{}
	regRev  = map[error]ErrD{} // pointer-like canonical instances and library sentinels
	libErrs = map[string]error{
		"Open": circuitbreaker.ErrOpen, "Full": bulkhead.ErrFull, "Rate": ratelimiter.ErrExceeded,
		"Timeout": timeout.ErrExceeded, "RetryExceeded": retrypolicy.ErrExceeded,
		"CtxCanceled": context.Canceled, "CtxDeadline": context.DeadlineExceeded,
		"ExecCanceled": failsafe.ErrExecutionCanceled,
	}
)

func init() {
	for k, e := range libErrs {
		regRev[e] = ErrD{K: k}
	}
}

// slotErr is a multi-error that keeps nil slots in what Unwrap() []error returns.
type slotErr struct{ errs []error }

func (s *slotErr) Error() string   { return fmt.Sprintf("slots%v", s.errs) }
func (s *slotErr) Unwrap() []error { return s.errs }

// Build returns the canonical Go error for the description.
func (d ErrD) Build() error {
	regMu.Lock()
	defer regMu.Unlock()
	return d.build()
}

func (d ErrD) build() error {
	key := d.Gallina()
	if e, ok := regByD[key]; ok {
		return e
	}
	var e error
	switch d.K {
	case "Sent":
		e = errors.New(fmt.Sprintf("sentinel %d", d.A))
	case "TypedV":
		switch d.A {
		case sliceTy:
			e = sliceErr{d.B}
		case 0:
			e = ValErr0{d.B}
		case 1:
			e = ValErr1{d.B}
		default:
			e = ValErr2{d.B}
		}
	case "TypedVP":
		switch d.A {
		case 0:
			e = &ValErr0{d.B}
		case 1:
			e = &ValErr1{d.B}
		default:
			e = &ValErr2{d.B}
		}
	case "TypedP":
		switch {
		case d.A == asShimTy:
			e = &asShimErr{d.B}
		case d.B == typedNilB && d.A == 0:
			e = (*PtrErr0)(nil)
		case d.B == typedNilB && d.A == 1:
			e = (*PtrErr1)(nil)
		case d.B == typedNilB:
			e = (*PtrErr2)(nil)
		case d.A == 0:
			e = &PtrErr0{d.B}
		case d.A == 1:
			e = &PtrErr1{d.B}
		default:
			e = &PtrErr2{d.B}
		}
	case "Wrap":
		e = fmt.Errorf("wrapped: %w", d.Sub[0].build())
	case "Join":
		es := make([]error, len(d.Sub))
		for i, s := range d.Sub {
			es[i] = s.build()
		}
		// errors.Join drops nil entries; a multi-error of the caller's own may keep them (one slot per shard, say): half of
		// the joined descriptions are built as such a value, with nil slots before, between and after the real ones --
		// errors.Is and the library's type matching skip nil slots, so the description (the non-nil ones) is the same
		if len(key)%2 == 0 {
			slots := []error{nil}
			for _, x := range es {
				slots = append(slots, x, nil)
			}
			e = &slotErr{errs: slots}
		} else {
			e = errors.Join(es...)
		}
	case "CustomIs":
		e = &CustomIsErr{N: d.A, Target: ErrD{K: "Sent", A: d.B}.build()}
	case "Exceeded":
		var le error
		if len(d.Sub) > 0 {
			le = d.Sub[0].build()
		}
		e = retrypolicy.ExceededError{LastResult: int(d.A), LastError: le}
	default:
		if le, ok := libErrs[d.K]; ok {
			e = le
		} else {
			panic("cannot build error " + key)
		}
	}
	regByD[key] = e
	switch d.K {
	case "TypedV", "Exceeded":
		// value types: described structurally
	default:
		regRev[e] = d
	}
	return e
}

// Describe maps a Go error back to its description; unknown errors map to
// EOther, which is unequal to everything in the model (forces a mismatch).
func Describe(err error) (ErrD, bool) {
	if err == nil {
		return ErrD{}, false
	}
	regMu.Lock()
	defer regMu.Unlock()
	return describe(err), true
}

func describe(err error) (d ErrD) {
	defer func() {
		if recover() != nil {
			d = ErrD{K: "Other"}
		}
	}()
	switch v := err.(type) {
	case sliceErr:
		if len(v) == 1 {
			return ErrD{K: "TypedV", A: sliceTy, B: v[0]}
		}
		return ErrD{K: "Other"}
	case ValErr0:
		return ErrD{K: "TypedV", A: 0, B: v.N}
	case ValErr1:
		return ErrD{K: "TypedV", A: 1, B: v.N}
	case ValErr2:
		return ErrD{K: "TypedV", A: 2, B: v.N}
	case retrypolicy.ExceededError:
		r, ok := v.LastResult.(int)
		if !ok {
			if v.LastResult == nil {
				r = 0
			} else {
				return ErrD{K: "Other"}
			}
		}
		if v.LastError == nil {
			return ErrD{K: "Exceeded", A: int64(r)}
		}
		return ErrD{K: "Exceeded", A: int64(r), Sub: []ErrD{describe(v.LastError)}}
	}
	if d, ok := regRev[err]; ok {
		return d
	}
	return ErrD{K: "Other"}
}

func gOptErr(err error) string {
	d, ok := Describe(err)
	return gOpt(d.Gallina(), ok)
}

func gOutcome(r int, err error) string { return "(" + gZ(int64(r)) + ", " + gOptErr(err) + ")" }

// ---- outcome descriptors ----

type OutD struct {
	R   int64
	Err *ErrD
}

func (o OutD) Gallina() string {
	if o.Err == nil {
		return "(" + gZ(o.R) + ", None)"
	}
	return "(" + gZ(o.R) + ", Some " + o.Err.Gallina() + ")"
}
func (o OutD) Go() (int, error) {
	if o.Err == nil {
		return int(o.R), nil
	}
	return int(o.R), o.Err.Build()
}

// ---- random error trees ----

func sent(n int64) ErrD { return ErrD{K: "Sent", A: n} }
func wrap(d ErrD) ErrD  { return ErrD{K: "Wrap", Sub: []ErrD{d}} }
func join(ds ...ErrD) ErrD {
	return ErrD{K: "Join", Sub: ds}
}

var atomKinds = []string{"Sent", "TypedV", "TypedVP", "TypedP", "CustomIs", "Open", "Full", "Rate", "Timeout",
	"RetryExceeded", "CtxCanceled", "CtxDeadline", "ExecCanceled"}

func randAtom(r *Rng) ErrD {
	switch k := Pick(r, atomKinds); k {
	case "Sent":
		return sent(int64(r.Intn(4)))
	case "TypedV":
		return ErrD{K: k, A: int64(r.Intn(3)), B: int64(r.Intn(3))}
	case "TypedVP", "TypedP":
		return ErrD{K: k, A: int64(r.Intn(3)), B: int64(r.Intn(2))}
	case "CustomIs":
		return ErrD{K: k, A: int64(r.Intn(2)), B: int64(r.Intn(4))}
	default:
		return ErrD{K: k}
	}
}

func randErr(r *Rng, depth int) ErrD {
	if depth <= 0 || r.Chance(40) {
		return randAtom(r)
	}
	switch r.Intn(4) {
	case 0:
		return wrap(randErr(r, depth-1))
	case 1:
		n := 1 + r.Intn(3)
		ds := make([]ErrD, n)
		for i := range ds {
			ds[i] = randErr(r, depth-1)
		}
		return join(ds...)
	case 2:
		if r.Chance(25) {
			return ErrD{K: "Exceeded", A: int64(r.Intn(3))}
		}
		return ErrD{K: "Exceeded", A: int64(r.Intn(3)), Sub: []ErrD{randErr(r, depth-1)}}
	default:
		return wrap(randErr(r, depth-1))
	}
}

func errKindOf(d *ErrD) string {
	if d == nil {
		return "nil"
	}
	return strings.ToLower(d.K)
}
