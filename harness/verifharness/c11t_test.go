//go:build verif

package verifharness

import (
	"fmt"
	"reflect"
	"testing"

	"github.com/failsafe-go/failsafe-go"
	"github.com/failsafe-go/failsafe-go/cachepolicy"
)

// C11 with result types other than int: "for every cache content" includes the values a type considers empty.

type anyCache[R any] struct{ m map[string]R }

func (c *anyCache[R]) Get(key string) (R, bool) { v, ok := c.m[key]; return v, ok }
func (c *anyCache[R]) Set(key string, v R)      { c.m[key] = v }

type typedObs struct {
	R                 int
	Inv               bool
	Hit, Miss, Cached int
}

// typedProbe runs two executions on one cache policy directly around a function, for every (pre, v1, v2) over vals;
// a value's code is its index in vals (code 0 is the type's zero / nil value).
func typedProbe[R any](w *CaseWriter, ty int, tyName string, vals []R, viaRun bool) {
	code := func(v R) int {
		for i, x := range vals {
			if reflect.DeepEqual(any(x), any(v)) && fmt.Sprintf("%#v", any(x)) == fmt.Sprintf("%#v", any(v)) {
				return i
			}
		}
		return 99
	}
	for pre := -1; pre < len(vals); pre++ {
		for v1 := range vals {
			for v2 := range vals {
				cache := &anyCache[R]{m: map[string]R{}}
				if pre >= 0 {
					cache.m["k"] = vals[pre]
				}
				var cur typedObs
				cp := cachepolicy.Builder[R](cache).WithKey("k").
					OnCacheHit(func(failsafe.ExecutionDoneEvent[R]) { cur.Hit++ }).
					OnCacheMiss(func(failsafe.ExecutionEvent[R]) { cur.Miss++ }).
					OnResultCached(func(failsafe.ExecutionEvent[R]) { cur.Cached++ }).Build()
				run := func(v R) typedObs {
					cur = typedObs{}
					var r R
					if viaRun {
						// Executor.Run: the function has no result; what is cached and returned is the zero value
						_ = failsafe.NewExecutor[R](cp).Run(func() error { cur.Inv = true; return nil })
					} else {
						r, _ = failsafe.Get(func() (R, error) { cur.Inv = true; return v, nil }, cp)
					}
					cur.R = code(r)
					return cur
				}
				o1 := run(vals[v1])
				o2 := run(vals[v2])
				m1, m2 := v1, v2
				if viaRun {
					m1, m2 = 0, 0
				}
				w.Add(func(id int) string {
					return fmt.Sprintf("CaseTyped %d %d %s %d %d %d %s %d %d %d %d %s %d %d %d", id, ty, gZ(int64(pre)), m1, m2,
						o1.R, gBool(o1.Inv), o1.Hit, o1.Miss, o1.Cached, o2.R, gBool(o2.Inv), o2.Hit, o2.Miss, o2.Cached)
				}, map[string]any{"result_type": tyName, "via_run": viaRun, "cached_beforehand": pre, "first_returns": m1, "second_returns": m2,
					"first": o1, "second": o2, "values": fmt.Sprintf("%#v", vals)}, true, fmt.Sprint(tyName, viaRun, pre, v1, v2))
				w.Stat("type=" + tyName)
			}
		}
	}
}

type emptyStruct struct{}
type boxed struct {
	P *int
	S []int
}

func driveC11Typed(t *testing.T) {
	w := NewCaseWriterNamed(t, "C11t", "Corr.C11t")
	one, two := 1, 2
	var nilp *int
	typedProbe[any](w, 0, "any", []any{nil, 7, "x", nilp, []int(nil), emptyStruct{}}, false)
	typedProbe[any](w, 0, "any", []any{nil}, true)
	typedProbe[*int](w, 1, "*int", []*int{nil, &one, &two}, false)
	typedProbe[string](w, 2, "string", []string{"", "a", "b"}, false)
	typedProbe[[]byte](w, 3, "[]byte", [][]byte{nil, {}, {1}}, false)
	typedProbe[error](w, 4, "error", []error{nil, fmt.Errorf("cached error value")}, false)
	typedProbe[emptyStruct](w, 5, "struct{}", []emptyStruct{{}}, false)
	typedProbe[boxed](w, 6, "struct with pointer and slice", []boxed{{}, {P: &one}, {S: []int{}}}, false)
	typedProbe[map[string]int](w, 7, "map", []map[string]int{nil, {}, {"a": 1}}, false)
	typedProbe[bool](w, 8, "bool", []bool{false, true}, false)
	typedProbe[float64](w, 9, "float64", []float64{0, 1.5}, false)
	w.Close("a cache policy directly around a function, result types any / *int / string / []byte / error / struct{} / struct / map / bool / float64 (and Executor.Run with result type any): for every value cached beforehand (or none) and every pair of values the function returns in two successive executions, the value returned, whether the function ran, and the OnCacheHit / OnCacheMiss / OnResultCached counts of both executions; value code 0 is the type's zero or nil value. Every case is non-trivial; distinct by inputs.", nil)
}
