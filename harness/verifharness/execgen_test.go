//go:build verif

package verifharness

import (
	"fmt"
	"os"
	"path/filepath"
	"strings"
	"testing"
)

// ---- generators for executions through policy stacks ----

type execProfile struct {
	name       string
	kinds      []string // policy kinds to draw from (with repetition for weight)
	maxDepth   int
	mustHave   string // a policy kind every stack contains ("" = none)
	extPct     int    // percentage of requests with an external cancellation
	coopPct    int
	withExec   bool // only entry points that hand an Execution to the function
	maxReqs    int
	single     bool // stacks are exactly [mustHave]
	durChoices []int64
	hedgePct   int // percentage of stacks that end in a hedge policy (directly around the function)
}

var (
	execErrs = []ErrD{sent(0), sent(1), wrap(sent(0)), {K: "TypedP", A: 1, B: 0}, {K: "Open"}, {K: "Timeout"}, {K: "Exceeded", A: 1, Sub: []ErrD{sent(0)}},
		wrap(join(sent(1), ErrD{K: "TypedP", A: 1, B: 0})), join(sent(2), wrap(sent(0))),
		{K: "TypedP", A: 1, B: typedNilB}, ErrD{K: "TypedP", A: asShimTy, B: 0},
		wrap(ErrD{K: "Timeout"}), join(sent(1), ErrD{K: "Timeout"}), {K: "TypedV", A: sliceTy, B: 3}}
)

func genOutcome(r *Rng) OutD {
	o := OutD{R: Pick(r, []int64{0, 1, 2, 7})}
	if r.Chance(55) {
		e := Pick(r, execErrs)
		o.Err = &e
	}
	return o
}

func genHandle(r *Rng) []CallD {
	if r.Chance(50) {
		return nil
	}
	n := 1 + r.Intn(2)
	cs := make([]CallD, n)
	for i := range cs {
		switch r.Intn(5) {
		case 0:
			cs[i] = CallD{K: "Errors", Errs: []ErrD{sent(int64(r.Intn(2)))}}
			if r.Chance(50) {
				// several targets in one call: each of them counts, not only the last
				cs[i].Errs = []ErrD{sent(int64(r.Intn(2))), {K: "Open"}, sent(2)}
			}
		case 1:
			cs[i] = CallD{K: "Result", R: Pick(r, []int64{0, 1, 7})}
		case 2:
			p := PredD{K: "ResGe", Z: int64(1 + r.Intn(2))}
			cs[i] = CallD{K: "If", P: &p}
		case 3:
			cs[i] = CallD{K: "ErrorTypes", Tgts: []TgtD{{K: "Err", E: &ErrD{K: "TypedP", A: 1, B: 0}}}}
			if r.Chance(50) {
				cs[i].Tgts = append(cs[i].Tgts, TgtD{K: "Err", E: &ErrD{K: "Timeout"}})
			}
		default:
			cs[i] = randCall(r, Pick(r, callKinds))
		}
	}
	return cs
}

// time constants are chosen from disjoint residue classes so that simultaneous events are rare;
// the model flags the remaining ties and those histories are not compared.
func genDur(r *Rng) int64   { return int64(r.Intn(6))*1024 + Pick(r, []int64{0, 0, 1024, 3072}) }
func genDelay(r *Rng) int64 { return Pick(r, []int64{0, 0, 2048, 5120, 20480}) }
func genLimit(r *Rng, pos int) int64 {
	return int64(1+r.Intn(8))*1024 + 512 + int64(pos)
}

type instGen struct {
	inst InstD
}

func (g *instGen) breaker(r *Rng) int {
	if len(g.inst.Breakers) > 0 && r.Chance(40) {
		return r.Intn(len(g.inst.Breakers))
	}
	var calls []BCallD
	switch r.Intn(4) {
	case 0:
	case 1:
		calls = append(calls, BCallD{K: "FailureThreshold", A: int64(1 + r.Intn(3))})
	case 2:
		c := int64(2 + r.Intn(3))
		calls = append(calls, BCallD{K: "FailureThresholdRatio", A: 1 + r.I64n(c), B: c})
	default:
		calls = append(calls, BCallD{K: "FailureRateThreshold", A: Pick(r, []int64{34, 50, 100}), B: int64(1 + r.Intn(3)), C: 102400})
	}
	if r.Chance(40) {
		calls = append(calls, BCallD{K: "SuccessThreshold", A: int64(1 + r.Intn(2))})
	}
	calls = append(calls, BCallD{K: "Delay", A: Pick(r, []int64{0, 4096 + 128, 40960 + 128})})
	if r.Chance(30) {
		h := genHandle(r)
		for i := range h {
			calls = append(calls, BCallD{K: "Handle", H: &h[i]})
		}
	}
	g.inst.Breakers = append(g.inst.Breakers, calls)
	return len(g.inst.Breakers) - 1
}

func (g *instGen) limiter(r *Rng) (int, int64) {
	if len(g.inst.Limiters) > 0 && r.Chance(40) {
		i := r.Intn(len(g.inst.Limiters))
		return i, g.inst.Limiters[i].MaxWait
	}
	c := LimCfg{MaxWait: Pick(r, []int64{0, 0, 2048 + 64, 10240 + 64, 1 << 40})}
	if r.Bool() {
		c.Smooth, c.ViaRate, c.Interval = true, true, Pick(r, []int64{1024, 4096, 16384})
	} else {
		c.Max, c.Period = int64(1+r.Intn(3)), Pick(r, []int64{4096, 16384})
	}
	g.inst.Limiters = append(g.inst.Limiters, c)
	return len(g.inst.Limiters) - 1, c.MaxWait
}

func (g *instGen) bulkhead(r *Rng) (int, int64) {
	if len(g.inst.Bulkheads) > 0 && r.Chance(40) {
		i := r.Intn(len(g.inst.Bulkheads))
		return i, g.inst.Bulkheads[i][2]
	}
	cap := int64(1 + r.Intn(3))
	held := int64(0)
	if r.Chance(35) {
		held = cap
	} else if r.Chance(30) {
		held = cap - 1
	}
	mw := Pick(r, []int64{0, 0, 2048 + 32, 8192 + 32})
	g.inst.Bulkheads = append(g.inst.Bulkheads, [3]int64{cap, held, mw})
	return len(g.inst.Bulkheads) - 1, mw
}

func (g *instGen) cache(r *Rng) int {
	if len(g.inst.Caches) > 0 && r.Chance(50) {
		return r.Intn(len(g.inst.Caches))
	}
	var c [][2]int64
	if r.Chance(30) {
		c = append(c, [2]int64{0, 40}) // an entry under the empty key, put there by someone else: never read, never written
	}
	for k := int64(1); k <= 3; k++ {
		if r.Chance(30) {
			c = append(c, [2]int64{k, 40 + k})
		}
	}
	g.inst.Caches = append(g.inst.Caches, c)
	return len(g.inst.Caches) - 1
}

func genPolicy(r *Rng, kind string, pos int, g *instGen) PolD {
	switch kind {
	case "Retry":
		p := PolD{K: "Retry", Handle: genHandle(r), MaxRetries: Pick(r, []int64{0, 1, 1, 2, 2, 3, -1}), MaxAttempts: r.Chance(30),
			ReturnLast: r.Chance(30), Delay: genDelay(r)}
		if p.MaxRetries == -1 && pos != 0 {
			p.MaxRetries = 2 // unlimited retries only for a retry policy that is the whole stack (see boundedScript)
		}
		if p.MaxRetries == -1 && len(p.Handle) == 0 {
			// unlimited retries need a script that ends in a non-failure; keep them bounded by an abort condition
			p.Abort = []CallD{{K: "Result", R: 7}, {K: "Errors", Errs: []ErrD{sent(1)}}}
		}
		if r.Chance(30) {
			p.Abort = append(p.Abort, genHandle(r)...)
		}
		if r.Chance(25) {
			p.MaxDuration = int64(1+r.Intn(6))*2048 + 300
		}
		if r.Chance(20) {
			p.PreMax = Pick(r, []string{"unlimited", "unlimited", "attempts", "retries"})
		}
		if r.Chance(15) {
			p.LsnDur = int64(1+r.Intn(5))*1024 + 64 + int64(pos) // a slow OnFailure listener: timers and cancellations land while it runs
		}
		return p
	case "Breaker":
		return PolD{K: "Breaker", Inst: g.breaker(r)}
	case "Limiter":
		i, mw := g.limiter(r)
		return PolD{K: "Limiter", Inst: i, MaxWait: mw}
	case "Bulkhead":
		i, mw := g.bulkhead(r)
		return PolD{K: "Bulkhead", Inst: i, MaxWait: mw}
	case "Timeout":
		return PolD{K: "Timeout", Limit: genLimit(r, pos)}
	case "Fallback":
		p := PolD{K: "Fallback", Handle: genHandle(r), FBKind: Pick(r, []string{"Result", "Error", "Echo", "WrapErr"}), FBR: Pick(r, []int64{-9, 0, 1, 7})}
		if p.FBKind == "Error" {
			e := Pick(r, execErrs)
			p.FBE = &e
		}
		// a slow failure listener / a slow fallback function: cancellations and timeouts land while they run
		if r.Chance(20) {
			p.FBLsnDur = int64(1+r.Intn(6))*1024 + 128 + int64(pos)
		}
		if (p.FBKind == "Echo" || p.FBKind == "WrapErr") && r.Chance(25) {
			p.FBDur = int64(1+r.Intn(6))*1024 + 384 + int64(pos)
		}
		return p
	default:
		p := PolD{K: "Cache", Inst: g.cache(r), Key: Pick(r, []int64{0, 1, 1, 2, 3})}
		if r.Chance(35) {
			p.CacheIf = []PredD{Pick(r, []PredD{{K: "ResGe", Z: 1}, {K: "HasErr"}, {K: "Always"}, {K: "ResEq", Z: 7}})}
			if r.Chance(40) {
				// several conditions: a result that satisfies ANY of them is stored, in whatever order they were registered
				p.CacheIf = append(p.CacheIf, Pick(r, []PredD{{K: "ResEq", Z: 0}, {K: "ResEq", Z: 2}, {K: "HasErr"}, {K: "ResGe", Z: 7}}))
			}
		}
		return p
	}
}

var allKinds = []string{"Retry", "Retry", "Breaker", "Limiter", "Bulkhead", "Timeout", "Timeout", "Fallback", "Fallback", "Cache"}

var plainEntries = []string{"Get", "Run", "GetAsync", "RunAsync"}
var execEntries = []string{"GetWithExecution", "RunWithExecution", "GetWithExecutionAsync", "RunWithExecutionAsync"}

func genExecHistory(r *Rng, pf execProfile) (InstD, []ReqD) {
	g := &instGen{}
	nreq := 1 + r.Intn(pf.maxReqs)
	var reqs []ReqD
	var stack []PolD
	for q := 0; q < nreq; q++ {
		if q == 0 || r.Chance(50) {
			depth := r.Intn(pf.maxDepth + 1)
			if pf.single {
				depth = 1
			}
			stack = nil
			have := false
			for pos := 0; pos < depth; pos++ {
				k := Pick(r, pf.kinds)
				if pf.single {
					k = pf.mustHave
				}
				if k == pf.mustHave {
					have = true
				}
				stack = append(stack, genPolicy(r, k, pos, g))
			}
			if pf.mustHave != "" && !have {
				pos := r.Intn(len(stack) + 1)
				np := genPolicy(r, pf.mustHave, len(stack)+20, g)
				stack = append(stack[:pos], append([]PolD{np}, stack[pos:]...)...)
			}
			if !pf.single && r.Chance(pf.hedgePct) {
				hp := PolD{K: "Hedge", Hedges: 1 + r.Intn(3), HDelay: int64(1+r.Intn(5))*1024 + 128 + int64(len(stack))}
				if r.Chance(60) {
					hp.Cancel = []CallD{Pick(r, []CallD{{K: "Result", R: 7}, {K: "Result", R: 0}, {K: "Errors", Errs: []ErrD{sent(0)}}, {K: "Errors", Errs: []ErrD{sent(1)}}})}
					if r.Chance(30) {
						hp.Cancel = append(hp.Cancel, genHandle(r)...)
					}
				}
				stack = append(stack, hp)
			}
		}
		rq := ReqD{Stack: stack, Gap: Pick(r, []int64{0, 1024, 4096, 40960 + 128, 102400}), CtxKey: Pick(r, []int64{-1, -1, -1, -2, 0, 1, 2})}
		for i := range rq.NoLsn {
			rq.NoLsn[i] = r.Chance(25)
		}
		if pf.withExec || r.Bool() {
			rq.Entry = Pick(r, execEntries)
		} else {
			rq.Entry = Pick(r, plainEntries)
		}
		n := 1 + r.Intn(6)
		if hedged(stack) {
			n += 2 + r.Intn(4)
		}
		for i := 0; i < n; i++ {
			st := FnStepD{Out: genOutcome(r), Dur: genDur(r)}
			if hedged(stack) {
				st.Dur = int64(r.Intn(10))*1024 + int64(i) // attempts overlap: pairwise distinct residues
			}
			if i == n-1 && r.Chance(70) {
				st.Out = OutD{R: Pick(r, []int64{0, 1, 7})} // scripts mostly end in a plain result
			}
			if rq.withExec() && r.Chance(pf.coopPct) {
				co := OutD{R: -5, Err: &ErrD{K: "Sent", A: 2}}
				if r.Bool() {
					co = st.Out
				}
				st.Coop = &co
			}
			if hedged(stack) && st.Coop != nil {
				st.Lag = int64(1 + i%5) // overlapping attempts: distinct return instants after a cancellation
			}
			rq.Script = append(rq.Script, st)
		}
		if hedged(stack) {
			// the last step is reused by every further attempt: cooperative attempts sharing one reaction lag would all
			// return at the same instant after a cancellation
			rq.Script[len(rq.Script)-1].Coop = nil
			rq.Script[len(rq.Script)-1].Lag = 0
		}
		if strings.HasPrefix(rq.Entry, "Run") { // Run* discards the function's result: it is the zero value inside the library
			for i := range rq.Script {
				rq.Script[i].Out.R = 0
				if rq.Script[i].Coop != nil {
					c := *rq.Script[i].Coop
					c.R = 0
					rq.Script[i].Coop = &c
				}
			}
		}
		if r.Chance(pf.extPct) {
			rq.ExtT = int64(r.Intn(12))*1024 + 256 + int64(r.Intn(3))
			rq.ExtKind = Pick(r, []string{"Cancel", "Deadline"})
		}
		if len(reqs) > 0 && r.Chance(25) {
			// the same executor value again, this time without WithContext: whatever context the previous execution was given
			// (a cache key, a cancellation) is not this one's
			prev := reqs[len(reqs)-1]
			rq.Stack, rq.NoLsn, rq.SameExec = prev.Stack, prev.NoLsn, true
			rq.CtxKey, rq.ExtT, rq.ExtKind = -1, 0, ""
			if hedged(rq.Stack) != hedged(stack) || len(rq.Script) == 0 {
				rq.Script = prev.Script
				rq.Entry = prev.Entry
			}
		}
		reqs = append(reqs, rq)
	}
	if len(g.inst.Breakers) > 0 && r.Chance(35) {
		// only some of the breakers' four state-change listeners are registered
		g.inst.BNoLsn = 1 + r.Intn(15)
		for i := range reqs {
			reqs[i].BNoLsn = g.inst.BNoLsn
		}
	}
	return g.inst, reqs
}

func hedged(stack []PolD) bool { return len(stack) > 0 && stack[len(stack)-1].K == "Hedge" }

// unbounded retry loops: a retry policy with unlimited retries must meet an outcome that stops it.
func boundedScript(reqs []ReqD) bool {
	for _, rq := range reqs {
		for _, p := range rq.Stack {
			if p.K == "Retry" && p.MaxRetries == -1 {
				last := rq.Script[len(rq.Script)-1]
				if last.Out.Err != nil || len(p.Handle) > 0 || len(rq.Stack) != 1 {
					return false
				}
			}
		}
	}
	return true
}

func driveExec(t *testing.T, prop string, pf execProfile, nQuick, nThorough int, rule string, extra func(w *CaseWriter, rng *Rng, add func(InstD, []ReqD, string))) {
	w := NewCaseWriter(t, prop, "FS.Corr."+prop)
	w.shardCap = envInt("VERIF_SHARD", 60)
	w.Extra = "Definition K := Eval vm_compute in skipped_ids cases.\nPrint K.\n"
	rng := NewRng(envSeed())
	n := nQuick
	if envTier() == "thorough" {
		n = nThorough
	}
	add := func(inst InstD, reqs []ReqD, tag string) {
		defer func() {
			if x := recover(); x != nil {
				rs := make([]string, len(reqs))
				for i, rq := range reqs {
					rs[i] = rq.Gallina()
				}
				t.Fatalf("panic %v while running history: %s %s", x, inst.Gallina(), strings.Join(rs, " ;; "))
			}
		}()
		{
			rs := make([]string, len(reqs))
			for i, rq := range reqs {
				rs[i] = rq.Gallina()
			}
			os.WriteFile(filepath.Join(w.dir, "last_history.txt"), []byte(inst.Gallina()+"\n"+strings.Join(rs, "\n")), 0o644)
		}
		obs, start := runHistory(t, inst, reqs)
		rs := make([]string, len(reqs))
		os := make([]string, len(obs))
		nontrivial := false
		for i, rq := range reqs {
			rs[i] = rq.Gallina()
			os[i] = obs[i].Gallina()
			w.Stat(fmt.Sprintf("depth=%d", len(rq.Stack)))
			w.Stat("entry=" + rq.Entry)
			for _, p := range rq.Stack {
				w.Stat("policy=" + p.K)
			}
			if rq.ExtT > 0 {
				w.Stat("external_cancel")
			}
			for k, c := range obs[i].Counts {
				if c > 0 {
					w.Stat("event=" + k)
				}
			}
			w.Stat("invocations=" + bucket(obs[i].Invoked))
			if len(rq.Stack) >= 2 && (obs[i].Invoked != 1 || obs[i].Counts["PolFailure"] > 0 || obs[i].Counts["TimeoutExceeded"] > 0 || obs[i].Counts["CacheHit"] > 0) {
				nontrivial = true
			}
			if pf.hedgePct == 100 && obs[i].Counts["Hedge"] > 0 {
				nontrivial = true
			}
			if pf.single && (obs[i].Invoked != 1 || obs[i].Counts["PolFailure"] > 0 || obs[i].Counts["CacheHit"] > 0 || obs[i].Counts["TimeoutExceeded"] > 0) {
				nontrivial = true
			}
		}
		w.Stat("gen=" + tag)
		il, rl, ol := inst.Gallina(), gList(rs), gList(os)
		w.Add(func(id int) string {
			return fmt.Sprintf("mk_hcase %d %d\n  %s\n  %s\n  %s", id, start, il, rl, ol)
		}, map[string]any{"instances": il, "requests": strings.Join(rs, " ;; "), "observed": strings.Join(os, " ;; ")}, nontrivial, il+rl)
	}
	if extra != nil {
		extra(w, rng, add)
	}
	for i := 0; i < n; i++ {
		inst, reqs := genExecHistory(rng, pf)
		if !boundedScript(reqs) {
			continue
		}
		add(inst, reqs, "random")
	}
	w.Close(rule, nil)
}

func TestDrive_C01(t *testing.T) {
	driveExec(t, "C01", execProfile{name: "C01", kinds: allKinds, maxDepth: 5, extPct: 8, coopPct: 40, maxReqs: 5, hedgePct: 20}, 400, 12000,
		"histories of 1-5 executions on shared policy instances; stacks of depth 0-5 over retry, breaker, rate limiter, bulkhead, timeout, fallback, cache (with repetition and shared instances); a hedge policy directly around the function in a fifth of the stacks; scripts of 1-6 function outcomes with durations; all eight entry points; occasional external cancellation. Observed per execution: returned result and error, end instant, the ordered log of every listener and of the function's entry and exit (with counters), breaker state/metrics and cache contents afterwards. Plus verdict-plumbing scenarios (verdict-sensitive policies directly around a policy that classifies a plain non-error result as a failure and hands it on). Non-trivial = depth >= 2 and some layer changed the outcome or the number of invocations; distinct by (instances, requests).",
		func(w *CaseWriter, rng *Rng, add func(InstD, []ReqD, string)) {
			n := 40
			if envTier() == "thorough" {
				n = 1500
			}
			flagScenarios(rng, n, add)
			cancelAfterEarlierTimeout(rng, n/2, add)
			abortWhileExhausted(rng, n/2, add)
		})
}

const execRule = "Observed per execution: returned result and error, end instant, the ordered log of every listener and of the function's entry and exit (with Attempts/Retries/Executions/LastResult/LastError), breaker state and metrics and cache contents afterwards; compared event by event with the model; the property's own checker is evaluated on the implementation's log. Distinct by (instances, requests)."

func TestDrive_C02(t *testing.T) {
	driveC07Hedged(t) // Hedge(Retry(Timeout(fn))): the branches of a hedge around a retry policy share its budget (checker budget_ok)
	pf := execProfile{name: "C02", kinds: []string{"Retry"}, maxDepth: 1, mustHave: "Retry", single: true, extPct: 0, coopPct: 0, maxReqs: 3}
	driveExec(t, "C02", pf, 500, 15000,
		"a retry policy as the whole stack: maxRetries -1,0..3 through WithMaxRetries or WithMaxAttempts, random handle and abort conditions, ReturnLastFailure on/off, max duration, fixed delays; scripts of 1-6 outcomes; all eight entry points; then retry policies inside random stacks; nested retry policies whose policy objects another execution goes through while the execution under observation waits out an outer delay. Non-trivial = the function ran more than once or a failure was handled. "+execRule,
		func(w *CaseWriter, rng *Rng, add func(InstD, []ReqD, string)) {
			// retry inside / around other policies
			pf2 := execProfile{name: "C02b", kinds: allKinds, maxDepth: 4, mustHave: "Retry", extPct: 5, coopPct: 30, maxReqs: 3, hedgePct: 20}
			n := 150
			if envTier() == "thorough" {
				n = 5000
			}
			for i := 0; i < n; i++ {
				inst, reqs := genExecHistory(rng, pf2)
				if boundedScript(reqs) {
					add(inst, reqs, "retry-in-stack")
				}
			}
			abortWhileExhausted(rng, n/5, add)
			visitedBetweenOuterAttempts(rng, n/4, add)
			nestedRetryExhaustedByDuration(rng, n/5, add)
			unlimitedRetriesWithMaxDuration(rng, n/5, add)
			waitOutsideRetryOutlastsMaxDuration(rng, n/5, add)
		})
}

func TestDrive_C10(t *testing.T) {
	driveHedgedFallbackProbes(t)
	pf := execProfile{name: "C10", kinds: []string{"Retry", "Breaker", "Limiter", "Bulkhead", "Timeout", "Fallback", "Cache"}, hedgePct: 20, maxDepth: 4, mustHave: "Fallback", extPct: 10, coopPct: 40, maxReqs: 3}
	driveExec(t, "C10", pf, 450, 15000,
		"stacks of depth 1-5 containing at least one fallback (WithResult/WithError/func echoing LastResult/func wrapping LastError) with random handle conditions, around and inside retry, breaker, rate limiter, bulkhead, timeout and cache policies so that the inner outcome ranges over plain results, handled and unhandled errors, ExceededError, ErrOpen, ErrFull, rate-limit and timeout errors; plus executions cancelled (context, deadline, async Cancel) while the function runs and returns a result the fallback handles without an error. Non-trivial = some layer changed the outcome. "+execRule,
		func(w *CaseWriter, rng *Rng, add func(InstD, []ReqD, string)) {
			n := 30
			if envTier() == "thorough" {
				n = 1000
			}
			cancelledHandledResult(rng, n, false, add)
			slowFallbackCancelled(rng, n, add)
		})
}

// a retry (or fallback + retry) around a hedge policy: a hedge starts and wins with a failure the retry policy handles while the
// first attempt is still running (it is cancelled as the loser); the caller's context is then cancelled, or reaches its
// deadline, in the middle of the retry delay that follows -- the execution reports that, not anything the hedged run left
func hedgeWinsThenCancelInDelay(rng *Rng, n int, add func(InstD, []ReqD, string)) {
	for i := 0; i < n; i++ {
		hd := int64(1+rng.Intn(3))*1024 + 128
		delay := int64(4+rng.Intn(4)) * 2048
		hp := PolD{K: "Hedge", Hedges: 1 + rng.Intn(2), HDelay: hd}
		if rng.Bool() {
			hp.Cancel = []CallD{{K: "Errors", Errs: []ErrD{sent(0)}}}
		}
		stack := []PolD{{K: "Retry", MaxRetries: int64(1 + rng.Intn(2)), Delay: delay}, hp}
		if rng.Chance(30) {
			stack = append([]PolD{{K: "Fallback", FBKind: "WrapErr"}}, stack...)
		}
		slow := FnStepD{Out: OutD{R: 1}, Dur: hd + 3072 + int64(rng.Intn(3))}
		if rng.Bool() {
			co := OutD{R: -5, Err: &ErrD{K: "Sent", A: 2}}
			slow.Coop, slow.Lag = &co, int64(1+rng.Intn(5))
		}
		fast := FnStepD{Out: OutD{Err: &ErrD{K: "Sent", A: 0}}, Dur: 256 + int64(rng.Intn(2))*128}
		won := hd + fast.Dur // the hedge's failure is accepted here; the retry delay runs from about this instant
		rq := ReqD{Stack: stack, CtxKey: -1, Entry: Pick(rng, execEntries), Script: []FnStepD{slow, fast, {Out: OutD{R: 1}, Dur: 512}},
			ExtT: won + slow.Lag + 16 + rng.I64n(delay-64), ExtKind: Pick(rng, []string{"Cancel", "Deadline"})}
		if strings.HasSuffix(rq.Entry, "Async") && rng.Chance(40) {
			rq.ExtKind = "AsyncCancel"
		}
		if strings.HasPrefix(rq.Entry, "Run") {
			for k := range rq.Script {
				rq.Script[k].Out.R = 0
				if rq.Script[k].Coop != nil {
					c0 := *rq.Script[k].Coop
					c0.R = 0
					rq.Script[k].Coop = &c0
				}
			}
		}
		add(InstD{}, []ReqD{rq}, "hedge-wins-then-cancel-in-delay")
	}
}

// a retry policy with an abort condition whose budget runs out on exactly the attempt that also matches the abort condition
// (documented: the policy still reports ExceededError), alone and inside policies that handle ErrExceeded
func abortWhileExhausted(rng *Rng, n int, add func(InstD, []ReqD, string)) {
	for i := 0; i < n; i++ {
		g := &instGen{}
		k := int64(rng.Intn(3))
		rp := PolD{K: "Retry", MaxRetries: k, Delay: genDelay(rng), ReturnLast: rng.Chance(25),
			Abort: []CallD{Pick(rng, []CallD{{K: "Errors", Errs: []ErrD{sent(1)}}, {K: "Result", R: 7}})}}
		if rp.Abort[0].K == "Result" {
			rp.Handle = []CallD{{K: "Result", R: 7}, {K: "Errors", Errs: []ErrD{sent(0)}}}
		}
		stack := []PolD{rp}
		switch rng.Intn(4) {
		case 0:
			stack = append([]PolD{{K: "Fallback", FBKind: "Result", FBR: 3, Handle: []CallD{{K: "Errors", Errs: []ErrD{{K: "RetryExceeded"}}}}}}, stack...)
		case 1:
			stack = append([]PolD{genPolicy(rng, "Breaker", 0, g)}, stack...)
		case 2:
			stack = append([]PolD{{K: "Retry", MaxRetries: 1, Handle: []CallD{{K: "Errors", Errs: []ErrD{{K: "RetryExceeded"}}}}}}, stack...)
		}
		var script []FnStepD
		for j := int64(0); j < k; j++ {
			script = append(script, FnStepD{Out: OutD{Err: &ErrD{K: "Sent", A: 0}}, Dur: genDur(rng)})
		}
		last := FnStepD{Out: OutD{Err: &ErrD{K: "Sent", A: 1}}, Dur: genDur(rng)}
		if rp.Abort[0].K == "Result" {
			last.Out = OutD{R: 7}
		}
		script = append(script, last, FnStepD{Out: OutD{R: 1}, Dur: 512})
		rq := ReqD{Stack: stack, CtxKey: -1, Entry: Pick(rng, []string{"Get", "GetWithExecution", "GetAsync", "GetWithExecutionAsync"}), Script: script}
		add(g.inst, []ReqD{rq, rq}, "abort-while-exhausted")
	}
}

// the execution is cancelled while the function -- which ignores the cancellation -- runs; it then returns a plain result
// that the fallback handles (HandleResult / HandleIf) without any error: the fallback must not be applied
func cancelledHandledResult(rng *Rng, n int, withRetry bool, add func(InstD, []ReqD, string)) {
	for i := 0; i < n; i++ {
		v := Pick(rng, []int64{0, 1, 7})
		h := CallD{K: "Result", R: v}
		if rng.Chance(30) {
			h = CallD{K: "If", P: &PredD{K: "ResGe", Z: v}}
		}
		stack := []PolD{{K: "Fallback", Handle: []CallD{h}, FBKind: Pick(rng, []string{"Echo", "WrapErr"}), FBR: int64(1 + rng.Intn(3))}}
		if withRetry || rng.Chance(40) {
			stack = append(stack, PolD{K: "Retry", MaxRetries: int64(rng.Intn(3)), Delay: genDelay(rng)})
		}
		dur := int64(2+rng.Intn(4)) * 1024
		rq := ReqD{Stack: stack, CtxKey: -1, Entry: Pick(rng, append(append([]string{}, execEntries...), plainEntries...)),
			Script: []FnStepD{{Out: OutD{R: v}, Dur: dur}}, ExtT: 1 + rng.I64n(dur-1), ExtKind: Pick(rng, []string{"Cancel", "Deadline"})}
		if strings.HasSuffix(rq.Entry, "Async") && rng.Chance(50) {
			rq.ExtKind = "AsyncCancel"
		}
		if strings.HasPrefix(rq.Entry, "Run") {
			continue // Run* entry points discard the result: nothing for a result condition to handle
		}
		add(InstD{}, []ReqD{rq}, "cancelled-handled-result")
	}
}

// a slow fallback: the policy's own OnFailure listener and / or the fallback function take time, and the execution is cancelled
// (caller's context, its deadline, async Cancel(), or an enclosing Timeout) while one of them runs.  Cancelled during the
// listener: the fallback function must not be entered; cancelled during the function: its output is dropped and the
// cancellation is what the execution reports.
func slowFallbackCancelled(rng *Rng, n int, add func(InstD, []ReqD, string)) {
	for i := 0; i < n; i++ {
		fb := PolD{K: "Fallback", FBKind: Pick(rng, []string{"Echo", "WrapErr"}), FBR: int64(1 + rng.Intn(3))}
		switch rng.Intn(3) {
		case 0:
			fb.FBLsnDur = int64(2+rng.Intn(4)) * 1024
		case 1:
			fb.FBDur = int64(2+rng.Intn(4)) * 1024
		default:
			fb.FBLsnDur, fb.FBDur = int64(2+rng.Intn(4))*1024, int64(2+rng.Intn(4))*1024
		}
		stack := []PolD{fb}
		retries := int64(0)
		if rng.Chance(60) {
			retries = int64(rng.Intn(2))
			stack = append(stack, PolD{K: "Retry", MaxRetries: retries})
		}
		d0 := Pick(rng, []int64{0, 512})
		t0 := (retries + 1) * d0
		// the instant: inside the listener, or inside the function
		var at int64
		if fb.FBDur == 0 || (fb.FBLsnDur != 0 && rng.Bool()) {
			at = t0 + 1 + rng.I64n(fb.FBLsnDur-1)
		} else {
			at = t0 + fb.FBLsnDur + 1 + rng.I64n(fb.FBDur-1)
		}
		rq := ReqD{Stack: stack, CtxKey: -1, Entry: Pick(rng, append(append([]string{}, execEntries...), plainEntries...)),
			Script: []FnStepD{{Out: OutD{Err: &ErrD{K: "Sent", A: 0}}, Dur: d0}}}
		switch rng.Intn(5) {
		case 0:
			rq.Stack = append([]PolD{{K: "Timeout", Limit: at}}, rq.Stack...)
		case 1:
			rq.ExtT, rq.ExtKind = at, "Deadline"
		case 2:
			rq.ExtT, rq.ExtKind = at, "Cancel"
		default:
			rq.ExtT, rq.ExtKind = at, "AsyncCancel"
			rq.Entry = Pick(rng, []string{"GetAsync", "RunAsync", "GetWithExecutionAsync", "RunWithExecutionAsync"})
		}
		add(InstD{}, []ReqD{rq}, "slow-fallback-cancelled")
	}
}

// nested retry policies visited between two outer attempts: outer(inner(fn)) where the outer policy only handles the error the
// visited execution fails with; while the visited execution waits out an outer delay, another execution goes through the same
// two policy objects -- succeeding at once (it must not refill the inner policy's budget of the visited execution) or failing
// with an error only the inner policy handles, until the inner policy gives up (it must not use that budget up either).
func visitedBetweenOuterAttempts(rng *Rng, n int, add func(InstD, []ReqD, string)) {
	for i := 0; i < n; i++ {
		d := int64(2+rng.Intn(6)) * 2048
		outer := PolD{K: "Retry", Handle: []CallD{{K: "Errors", Errs: []ErrD{{K: "Sent", A: 0}}}}, MaxRetries: int64(1 + rng.Intn(3)), Delay: d}
		inner := PolD{K: "Retry", MaxRetries: int64(1 + rng.Intn(3)), ReturnLast: rng.Chance(30)}
		stack := []PolD{outer, inner}
		if rng.Chance(25) {
			stack = []PolD{outer, {K: "Fallback", Handle: []CallD{{K: "Result", R: 99}}, FBKind: "Result", FBR: 1}, inner}
		}
		rq := ReqD{Stack: stack, CtxKey: -1, Entry: Pick(rng, append(append([]string{}, execEntries...), plainEntries...)),
			Script: []FnStepD{{Out: OutD{Err: &ErrD{K: "Sent", A: 0}}}}}
		if rng.Chance(40) {
			// the first outcome is one the inner policy lets through: no inner retry used before the visit
			rq.Stack[len(rq.Stack)-1].Handle = []CallD{{K: "Errors", Errs: []ErrD{{K: "Sent", A: 0}, {K: "Sent", A: 1}}}}
			rq.Stack[0].Handle = []CallD{{K: "Errors", Errs: []ErrD{{K: "Sent", A: 0}, {K: "Sent", A: 2}}}}
			rq.Script = []FnStepD{{Out: OutD{Err: &ErrD{K: "Sent", A: 2}}}, {Out: OutD{Err: &ErrD{K: "Sent", A: 0}}}}
		}
		rq.VisT = int64(rng.Intn(int(outer.MaxRetries)))*d + 1 + rng.I64n(d-1)
		if rng.Bool() {
			rq.VisOut = OutD{R: 1}
		} else {
			rq.VisOut = OutD{Err: &ErrD{K: "Sent", A: 1}}
		}
		add(InstD{}, []ReqD{rq}, "visited-between-outer-attempts")
	}
}

// a slow OnFailure listener of a retry policy, and the execution is cancelled while it runs (caller's context, its deadline, async
// Cancel(), an enclosing Timeout): the cancellation arrives between the retry loop's look at it and the recording of the
// attempt's result.  The execution reports the cancellation, starts no further attempt, and everything that looks at the
// execution afterwards (enclosing policies, completion listeners, a second execution on the same policies) still gets through.
func slowRetryListenerCancelled(rng *Rng, n int, add func(InstD, []ReqD, string)) {
	for i := 0; i < n; i++ {
		l := int64(2+rng.Intn(4)) * 1024
		rp := PolD{K: "Retry", MaxRetries: int64(1 + rng.Intn(2)), LsnDur: l, Delay: Pick(rng, []int64{0, 2048})}
		stack := []PolD{rp}
		switch rng.Intn(4) {
		case 0:
			stack = []PolD{{K: "Fallback", FBKind: "WrapErr"}, rp}
		case 1:
			stack = []PolD{{K: "Retry", MaxRetries: 1, Handle: []CallD{{K: "Errors", Errs: []ErrD{{K: "Sent", A: 5}}}}}, rp}
		}
		d0 := Pick(rng, []int64{0, 512})
		// in the listener of which failed attempt: any of them, the last one (on which the policy gives up) included
		k := int64(rng.Intn(int(rp.MaxRetries) + 1))
		if rng.Chance(40) {
			k = rp.MaxRetries
		}
		at := k*(d0+l+rp.Delay) + d0 + 1 + rng.I64n(l-1)
		rq := ReqD{Stack: stack, CtxKey: -1, Entry: Pick(rng, append(append([]string{}, execEntries...), plainEntries...)),
			Script: []FnStepD{{Out: OutD{Err: &ErrD{K: "Sent", A: 0}}, Dur: d0}}}
		switch rng.Intn(5) {
		case 0, 1:
			rq.Stack = append([]PolD{{K: "Timeout", Limit: at}}, rq.Stack...)
		case 2:
			rq.ExtT, rq.ExtKind = at, "Deadline"
		case 3:
			rq.ExtT, rq.ExtKind = at, "Cancel"
		default:
			rq.ExtT, rq.ExtKind = at, "AsyncCancel"
			rq.Entry = Pick(rng, []string{"GetAsync", "RunAsync", "GetWithExecutionAsync", "RunWithExecutionAsync"})
		}
		reqs := []ReqD{rq}
		if rng.Bool() {
			// the same policies again, undisturbed
			reqs = append(reqs, ReqD{Stack: rq.Stack, CtxKey: -1, Entry: rq.Entry, Gap: 4096, Script: []FnStepD{{Out: OutD{R: 0}, Dur: 256}}})
		}
		add(InstD{}, reqs, "slow-retry-listener-cancelled")
	}
}

// nested retry policies, the inner one exhausted by its MAX DURATION (its retry count is generous or unlimited): exhaustion is
// remembered for the rest of the execution, so when the outer policy re-enters the inner one it hands results through without
// judging them again -- no second OnRetriesExceeded, no further retries of its own, no ExceededError around an ExceededError.
func nestedRetryExhaustedByDuration(rng *Rng, n int, add func(InstD, []ReqD, string)) {
	for i := 0; i < n; i++ {
		dur := int64(1+rng.Intn(3)) * 1024
		inner := PolD{K: "Retry", MaxRetries: Pick(rng, []int64{4, 6, 9}), MaxDuration: dur*int64(1+rng.Intn(3)) + 300, Delay: Pick(rng, []int64{0, 0, 512}), ReturnLast: rng.Chance(30)}
		outer := PolD{K: "Retry", MaxRetries: int64(1 + rng.Intn(3)), Delay: Pick(rng, []int64{0, 2048}), ReturnLast: rng.Chance(30)}
		stack := []PolD{outer, inner}
		if rng.Chance(30) {
			stack = []PolD{outer, {K: "Timeout", Limit: 1 << 30}, inner}
		}
		script := []FnStepD{{Out: OutD{Err: &ErrD{K: "Sent", A: 0}}, Dur: dur}}
		if rng.Chance(30) {
			// the function recovers late: after the inner policy is exhausted, during a later outer attempt
			for k := 0; k < 4+rng.Intn(4); k++ {
				script = append(script, FnStepD{Out: OutD{Err: &ErrD{K: "Sent", A: 0}}, Dur: dur})
			}
			script = append(script, FnStepD{Out: OutD{R: 1}, Dur: 256})
		}
		rq := ReqD{Stack: stack, CtxKey: -1, Entry: Pick(rng, append(append([]string{}, execEntries...), plainEntries...)), Script: script}
		if strings.HasPrefix(rq.Entry, "Run") {
			for k := range rq.Script {
				rq.Script[k].Out.R = 0
			}
		}
		add(InstD{}, []ReqD{rq}, "nested-retry-exhausted-by-duration")
	}
}

// a function (or what is inside the cache) that fails with a context error of its own -- a downstream deadline, say -- while the
// execution itself is not cancelled: an outcome with an error, so it is not stored (unless a CacheIf condition asks for it), and
// the next execution misses again and runs the function
func cacheAroundContextErrors(rng *Rng, n int, add func(InstD, []ReqD, string)) {
	for i := 0; i < n; i++ {
		g := &instGen{}
		g.inst.Caches = append(g.inst.Caches, nil)
		cp := PolD{K: "Cache", Inst: 0, Key: int64(1 + rng.Intn(3))}
		if rng.Chance(25) {
			cp.CacheIf = []PredD{{K: "ResGe", Z: 1}}
		}
		stack := []PolD{cp}
		switch rng.Intn(3) {
		case 0:
			stack = append(stack, PolD{K: "Retry", MaxRetries: int64(rng.Intn(2)), Handle: []CallD{{K: "Errors", Errs: []ErrD{sent(0)}}}})
		case 1:
			stack = append(stack, PolD{K: "Timeout", Limit: 1 << 30})
		}
		e := ErrD{K: Pick(rng, []string{"CtxCanceled", "CtxDeadline"})}
		if rng.Chance(30) {
			e = wrap(e)
		}
		entry := Pick(rng, []string{"Get", "GetWithExecution", "GetAsync", "GetWithExecutionAsync"})
		reqs := []ReqD{
			{Stack: stack, CtxKey: -1, Entry: entry, Script: []FnStepD{{Out: OutD{R: 0, Err: &e}, Dur: 512}}},
			{Stack: stack, CtxKey: -1, Entry: entry, Gap: 1024, Script: []FnStepD{{Out: OutD{R: 5}, Dur: 512}}},
			{Stack: stack, CtxKey: -1, Entry: entry, Gap: 1024, Script: []FnStepD{{Out: OutD{R: 6}, Dur: 512}}},
		}
		add(g.inst, reqs, "cache-around-context-errors")
	}
}

// Retry(Timeout(P(fn))) where P waits (an inner retry's delay, a rate limiter's wait) and the Timeout fires during that wait --
// in the first attempt and in every later one: the wait is cut short each time, the execution does not wait it out
func timeoutCutsInnerWaitOnLaterAttempts(rng *Rng, n int, add func(InstD, []ReqD, string)) {
	for i := 0; i < n; i++ {
		g := &instGen{}
		limit := int64(2+rng.Intn(4))*1024 + 37
		var inner PolD
		if rng.Bool() {
			inner = PolD{K: "Retry", MaxRetries: 3, Delay: 8*limit + 5}
		} else {
			g.inst.Limiters = append(g.inst.Limiters, LimCfg{Smooth: true, ViaRate: true, Interval: 16 * limit, MaxWait: 1 << 40})
			inner = PolD{K: "Limiter", Inst: 0, MaxWait: 1 << 40}
		}
		stack := []PolD{{K: "Retry", MaxRetries: int64(1 + rng.Intn(2)), Delay: Pick(rng, []int64{0, 512})}, {K: "Timeout", Limit: limit}, inner}
		rq := ReqD{Stack: stack, CtxKey: -1, Entry: Pick(rng, []string{"GetAsync", "RunAsync", "GetWithExecutionAsync", "RunWithExecutionAsync", "Get", "GetWithExecution"}),
			Script: []FnStepD{{Out: OutD{Err: &ErrD{K: "Sent", A: 0}}, Dur: 128}}}
		add(g.inst, []ReqD{rq}, "timeout-cuts-inner-wait")
	}
}

// "retry as often as needed, but for at most d": unlimited retries with a max duration (alone, and inside a timeout / fallback)
func unlimitedRetriesWithMaxDuration(rng *Rng, n int, add func(InstD, []ReqD, string)) {
	for i := 0; i < n; i++ {
		dur := int64(1+rng.Intn(3))*512 + 7
		rp := PolD{K: "Retry", MaxRetries: -1, MaxAttempts: rng.Bool(), MaxDuration: dur*int64(2+rng.Intn(5)) + 300, Delay: Pick(rng, []int64{0, 0, 512}), ReturnLast: rng.Chance(30)}
		stack := []PolD{rp}
		switch rng.Intn(4) {
		case 0:
			stack = []PolD{{K: "Fallback", FBKind: "WrapErr"}, rp}
		case 1:
			stack = []PolD{{K: "Timeout", Limit: 1 << 30}, rp}
		}
		rq := ReqD{Stack: stack, CtxKey: -1, Entry: Pick(rng, append(append([]string{}, execEntries...), plainEntries...)),
			Script: []FnStepD{{Out: OutD{Err: &ErrD{K: "Sent", A: 0}}, Dur: dur}}}
		add(InstD{}, []ReqD{rq}, "unlimited-retries-max-duration")
	}
}

// a wait OUTSIDE the retry policy (a rate limiter that grants its permit after a wait) that alone outlasts the retry policy's max
// duration: the max duration is the execution's, so the first failure already finds it exceeded
func waitOutsideRetryOutlastsMaxDuration(rng *Rng, n int, add func(InstD, []ReqD, string)) {
	for i := 0; i < n; i++ {
		g := &instGen{}
		interval := int64(4+rng.Intn(6)) * 2048
		g.inst.Limiters = append(g.inst.Limiters, LimCfg{Smooth: true, ViaRate: true, Interval: interval, MaxWait: 1 << 40})
		rp := PolD{K: "Retry", MaxRetries: int64(2 + rng.Intn(2)), MaxDuration: interval/2 + 300, Delay: Pick(rng, []int64{0, 512})}
		stack := []PolD{{K: "Limiter", Inst: 0, MaxWait: 1 << 40}, rp}
		entry := Pick(rng, append(append([]string{}, execEntries...), plainEntries...))
		fail := []FnStepD{{Out: OutD{Err: &ErrD{K: "Sent", A: 0}}, Dur: 128}}
		// the first execution takes the free permit and leaves at once; the second one has to wait a whole interval for its permit
		reqs := []ReqD{{Stack: stack, CtxKey: -1, Entry: entry, Script: []FnStepD{{Out: OutD{R: 0}, Dur: 0}}},
			{Stack: stack, CtxKey: -1, Entry: entry, Gap: 16, Script: fail}}
		add(g.inst, reqs, "wait-outside-retry-outlasts-max-duration")
	}
}

// a rate limiter wait that is cancelled keeps the slot it was promised: the next execution queues behind it
func cancelledLimiterWaitKeepsItsSlot(rng *Rng, n int, add func(InstD, []ReqD, string)) {
	for i := 0; i < n; i++ {
		g := &instGen{}
		interval := int64(4+rng.Intn(6)) * 2048
		g.inst.Limiters = append(g.inst.Limiters, LimCfg{Smooth: true, ViaRate: true, Interval: interval, MaxWait: 1 << 40})
		stack := []PolD{{K: "Limiter", Inst: 0, MaxWait: 1 << 40}}
		if rng.Bool() {
			stack = append([]PolD{{K: "Retry", MaxRetries: 1}}, stack...)
		}
		entry := Pick(rng, []string{"Get", "GetWithExecution", "GetAsync", "GetWithExecutionAsync"})
		ok := []FnStepD{{Out: OutD{R: 1}, Dur: 64}}
		reqs := []ReqD{{Stack: stack, CtxKey: -1, Entry: entry, Script: ok},
			{Stack: stack, CtxKey: -1, Entry: entry, Gap: 16, Script: ok, ExtT: interval / 2, ExtKind: Pick(rng, []string{"Cancel", "Deadline"})},
			{Stack: stack, CtxKey: -1, Entry: entry, Gap: 16, Script: ok}}
		add(g.inst, reqs, "cancelled-limiter-wait-keeps-its-slot")
	}
}

// verdict plumbing: an inner policy classifies a plain non-error result as a failure and hands it on (retry with
// ReturnLastFailure, breaker / fallback with a result condition); verdict-sensitive policies sit directly around it
// (cache, fallback, retry, breaker, timeout), and the same stack runs two or three times on the same instances.
func flagScenarios(rng *Rng, n int, add func(InstD, []ReqD, string)) {
	for i := 0; i < n; i++ {
		g := &instGen{}
		v := Pick(rng, []int64{0, 1, 7})
		handleV := []CallD{{K: "Result", R: v}}
		var inner PolD
		switch rng.Intn(3) {
		case 0:
			inner = PolD{K: "Retry", Handle: handleV, MaxRetries: int64(rng.Intn(3)), ReturnLast: true, Delay: genDelay(rng)}
		case 1:
			inner = PolD{K: "Breaker", Inst: len(g.inst.Breakers)}
			g.inst.Breakers = append(g.inst.Breakers, []BCallD{{K: "FailureThreshold", A: int64(2 + rng.Intn(3))}, {K: "Delay", A: 40960 + 128}, {K: "Handle", H: &handleV[0]}})
		default:
			inner = PolD{K: "Fallback", Handle: handleV, FBKind: "Echo", FBR: 0} // handled, replaced by the same plain result
		}
		var stack []PolD
		for k := 1 + rng.Intn(2); k > 0; k-- {
			pos := len(stack)
			switch rng.Intn(5) {
			case 0, 1:
				p := PolD{K: "Cache", Inst: g.cache(rng), Key: Pick(rng, []int64{1, 2})}
				if rng.Chance(25) {
					p.CacheIf = []PredD{Pick(rng, []PredD{{K: "ResGe", Z: 1}, {K: "Always"}})}
				}
				stack = append(stack, p)
			case 2:
				stack = append(stack, PolD{K: "Fallback", Handle: Pick(rng, [][]CallD{nil, handleV}), FBKind: "Result", FBR: -9})
			case 3:
				stack = append(stack, PolD{K: "Retry", Handle: Pick(rng, [][]CallD{nil, handleV}), MaxRetries: 1, ReturnLast: rng.Bool()})
			default:
				stack = append(stack, genPolicy(rng, Pick(rng, []string{"Breaker", "Timeout"}), pos, g))
			}
		}
		stack = append(stack, inner)
		var reqs []ReqD
		for q := 0; q < 2+rng.Intn(2); q++ {
			rq := ReqD{Stack: stack, Gap: Pick(rng, []int64{0, 1024}), CtxKey: -1, Entry: Pick(rng, []string{"Get", "GetWithExecution", "GetAsync"})}
			for k := 0; k < 1+rng.Intn(3); k++ {
				o := OutD{R: v}
				if rng.Chance(25) {
					o = genOutcome(rng)
				}
				rq.Script = append(rq.Script, FnStepD{Out: o, Dur: genDur(rng)})
			}
			reqs = append(reqs, rq)
		}
		add(g.inst, reqs, "verdict-plumbing")
	}
}

func TestDrive_C11(t *testing.T) {
	pf := execProfile{name: "C11", kinds: []string{"Retry", "Retry", "Breaker", "Breaker", "Fallback", "Timeout", "Bulkhead", "Cache"}, hedgePct: 20, maxDepth: 3, mustHave: "Cache", extPct: 0, coopPct: 20, maxReqs: 6}
	driveExec(t, "C11", pf, 450, 15000,
		"histories of 1-6 executions on shared caches and policy instances; stacks containing a cache policy (configured key 0-3, CacheIf conditions, pre-populated stores) with stateful breakers/bulkheads/retries inside; context keys none / non-string / string (empty, equal, different); plus verdict-plumbing scenarios (a cache / fallback / retry / breaker / timeout directly around a policy that classifies a plain non-error result as a failure and hands it on, run two or three times on the same instances). Non-trivial = a hit, a store or a handled failure occurred. "+execRule,
		func(w *CaseWriter, rng *Rng, add func(InstD, []ReqD, string)) {
			n := 60
			if envTier() == "thorough" {
				n = 2000
			}
			flagScenarios(rng, n, add)
			cacheAroundContextErrors(rng, n/2, add)
		})
	driveC11Typed(t)
}

// a retry policy around a rate limiter with a max wait time: attempts refused at once (ErrExceeded), then an attempt
// whose permit is granted after a wait -- and the caller's context is cancelled (or its deadline reached) during that wait
func limiterWaitScenarios(rng *Rng, n int, add func(InstD, []ReqD, string)) {
	for i := 0; i < n; i++ {
		period := Pick(rng, []int64{16384, 32768})
		maxWait := period*5/8 + 64
		delay := Pick(rng, []int64{1024, 2048})
		inst := InstD{Limiters: []LimCfg{{Max: 1, Period: period, MaxWait: maxWait}}}
		var stack []PolD
		if rng.Chance(30) {
			stack = append(stack, PolD{K: "Timeout", Limit: 10*period + 512})
		}
		stack = append(stack, PolD{K: "Retry", MaxRetries: int64(8 + rng.Intn(8)), Delay: delay})
		if rng.Chance(40) {
			stack = append(stack, PolD{K: "Fallback", FBKind: "WrapErr"})
		} else if rng.Chance(30) {
			stack = append(stack, PolD{K: "Breaker", Inst: 0})
			inst.Breakers = [][]BCallD{{{K: "FailureThreshold", A: 50}, {K: "Delay", A: 4096 + 128}}}
		}
		stack = append(stack, PolD{K: "Limiter", Inst: 0, MaxWait: maxWait})
		// the first attempt takes the period's permit and fails; attempts are refused until period - maxWait, then one waits
		waitFrom := period - maxWait
		rq := ReqD{Stack: stack, CtxKey: -1, Entry: Pick(rng, []string{"Get", "GetWithExecution", "GetAsync", "RunWithExecution"}),
			Script: []FnStepD{{Out: OutD{Err: &ErrD{K: "Sent"}}, Dur: int64(rng.Intn(2)) * 512}},
			ExtT:   waitFrom + delay + 100 + int64(rng.Intn(int(maxWait-delay-200))), ExtKind: Pick(rng, []string{"Cancel", "Deadline"})}
		if strings.HasPrefix(rq.Entry, "Run") {
			rq.Script[0].Out.R = 0
		}
		add(inst, []ReqD{rq}, "limiter-wait-cancelled")
	}
}

func TestDrive_C16(t *testing.T) {
	driveNestedHedgeProbes(t, "C16p")
	driveAsyncCancelEventProbes(t)
	pf := execProfile{name: "C16", kinds: allKinds, maxDepth: 5, extPct: 10, coopPct: 40, maxReqs: 4, hedgePct: 20}
	driveExec(t, "C16", pf, 400, 12000, "random stacks and histories as for C01, with every policy listener registered and executor listeners registered in random subsets; plus retry policies around a rate limiter with a max wait time whose granted-after-a-wait attempt is cancelled during the wait (after refused attempts); plus nested retry policies whose inner policy is exhausted by its max duration and re-entered by the outer one. "+execRule,
		func(w *CaseWriter, rng *Rng, add func(InstD, []ReqD, string)) {
			n := 30
			if envTier() == "thorough" {
				n = 800
			}
			limiterWaitScenarios(rng, n, add)
			abortWhileExhausted(rng, n, add)
			nestedRetryExhaustedByDuration(rng, n, add)
		})
}

func TestDrive_C17(t *testing.T) {
	pf := execProfile{name: "C17", kinds: allKinds, maxDepth: 5, extPct: 10, coopPct: 40, maxReqs: 4, withExec: true, hedgePct: 35}
	driveExec(t, "C17", pf, 400, 12000, "random stacks and histories as for C01 through the entry points that hand an Execution to the function, so that counters are read inside the function as well as in every listener. "+execRule, nil)
	driveC17Probes(t)
	driveHedgedRetryCounterProbes(t)
	driveNestedHedgeProbes(t, "C17n")
}

// durations placed around the limits of the timeouts in the stack: far below, just below, just above, far above
func aroundLimits(r *Rng, reqs []ReqD) {
	for qi := range reqs {
		var limits []int64
		for _, p := range reqs[qi].Stack {
			if p.K == "Timeout" {
				limits = append(limits, p.Limit)
			}
		}
		if len(limits) == 0 {
			continue
		}
		for si := range reqs[qi].Script {
			l := Pick(r, limits)
			reqs[qi].Script[si].Dur = Pick(r, []int64{0, l / 2, l - 1, l + 1, 2 * l, l - 1, l + 1, 3*l + 7})
		}
	}
}

func TestDrive_C07(t *testing.T) {
	driveC07Race(t)
	driveC07Hedged(t)
	pf := execProfile{name: "C07", kinds: []string{"Timeout", "Timeout", "Retry", "Fallback", "Bulkhead", "Limiter", "Breaker"}, hedgePct: 20, maxDepth: 4, mustHave: "Timeout", extPct: 0, coopPct: 50, maxReqs: 2, withExec: true}
	driveExec(t, "C07", pf, 0, 0,
		"stacks containing at least one Timeout (limits 1.5-8.5 us with distinct residues) alone and relative to retry, fallback, bulkhead, rate limiter and breaker, including nested timeouts; function durations placed at 0, limit/2, limit-1ns, limit+1ns, 2*limit, 3*limit+7 for cooperative (return on cancellation) and non-cooperative functions; plus retries around a Timeout where an earlier attempt timed out and the caller cancels in the middle of a later attempt; plus executions whose caller's context is already cancelled (or past its deadline) when they start; plus Timeouts with a zero or negative limit. Non-trivial = a timeout fired or a failure was handled. "+execRule,
		func(w *CaseWriter, rng *Rng, add func(InstD, []ReqD, string)) {
			n := 450
			if envTier() == "thorough" {
				n = 15000
			}
			for i := 0; i < n; i++ {
				inst, reqs := genExecHistory(rng, pf)
				if !boundedScript(reqs) {
					continue
				}
				aroundLimits(rng, reqs)
				add(inst, reqs, "around-limit")
			}
			m := 30
			if envTier() == "thorough" {
				m = 800
			}
			cancelAfterEarlierTimeout(rng, m, add)
			preCancelled(rng, m, true, add)
			nonPositiveLimit(rng, m, add)
		})
}

// a Timeout whose limit is zero or negative has elapsed when the attempt starts: any function that takes time is timed out
func nonPositiveLimit(rng *Rng, m int, add func(InstD, []ReqD, string)) {
	for i := 0; i < m; i++ {
		limit := Pick(rng, []int64{0, 0, -1, -4096})
		stack := []PolD{{K: "Timeout", Limit: limit}}
		if rng.Chance(40) {
			stack = append([]PolD{{K: "Retry", MaxRetries: int64(1 + rng.Intn(2)), Delay: Pick(rng, []int64{0, 2048})}}, stack...)
		} else if rng.Chance(30) {
			stack = append([]PolD{{K: "Fallback", FBKind: "Result", FBR: 3}}, stack...)
		}
		coop := OutD{R: -5, Err: &ErrD{K: "Sent", A: 2}}
		step := FnStepD{Out: genOutcome(rng), Dur: int64(1+rng.Intn(4)) * 1024}
		rq := ReqD{Stack: stack, CtxKey: -1, Entry: Pick(rng, append(append([]string{}, execEntries...), plainEntries...)), Script: []FnStepD{step, step}}
		if strings.Contains(rq.Entry, "WithExecution") && rng.Bool() {
			rq.Script[0].Coop, rq.Script[0].Lag = &coop, int64(1+rng.Intn(5))
			rq.Script[1] = rq.Script[0]
		}
		if strings.HasPrefix(rq.Entry, "Run") {
			for k := range rq.Script {
				rq.Script[k].Out.R = 0
				if rq.Script[k].Coop != nil {
					c0 := coop
					c0.R = 0
					rq.Script[k].Coop = &c0
				}
			}
		}
		add(InstD{}, []ReqD{rq}, "non-positive-limit")
	}
}

// a retry policy around a Timeout: an earlier attempt times out, then the caller's context is cancelled (or its deadline
// reached) in the middle of a later attempt, whose own limit has not expired
func cancelAfterEarlierTimeout(rng *Rng, m int, add func(InstD, []ReqD, string)) {
	for i := 0; i < m; i++ {
		limit := int64(2+rng.Intn(6))*1024 + 512
		delay := Pick(rng, []int64{0, 1024, 2048})
		stack := []PolD{{K: "Retry", MaxRetries: int64(2 + rng.Intn(2)), Delay: delay}}
		if rng.Chance(30) {
			stack = append(stack, PolD{K: "Fallback", Handle: []CallD{{K: "Result", R: 7}}, FBKind: "Result", FBR: -9})
		}
		stack = append(stack, PolD{K: "Timeout", Limit: limit})
		coop := OutD{R: -5, Err: &ErrD{K: "Sent", A: 2}}
		first := FnStepD{Out: OutD{R: 1}, Dur: limit + 1024 + int64(rng.Intn(3))*512}
		if rng.Bool() {
			first.Coop = &coop
		}
		later := FnStepD{Out: OutD{R: 1}, Dur: limit - 256}
		if rng.Bool() {
			later.Coop = &coop
		}
		// attempt 2 starts at limit (+ whatever the first attempt still takes when it ignores the cancellation) + delay
		start2 := limit + delay
		if first.Coop == nil {
			start2 = first.Dur + delay
		}
		rq := ReqD{Stack: stack, CtxKey: -1, Entry: Pick(rng, execEntries), Script: []FnStepD{first, later},
			ExtT: start2 + 300 + int64(rng.Intn(int(limit-700))), ExtKind: Pick(rng, []string{"Cancel", "Deadline"})}
		if strings.HasPrefix(rq.Entry, "Run") {
			rq.Script[0].Out.R, rq.Script[1].Out.R = 0, 0
			c0 := coop
			c0.R = 0
			if rq.Script[0].Coop != nil {
				rq.Script[0].Coop = &c0
			}
			if rq.Script[1].Coop != nil {
				rq.Script[1].Coop = &c0
			}
		}
		add(InstD{}, []ReqD{rq}, "cancel-after-earlier-timeout")
	}
}

// the caller's context is already done (cancelled, or its deadline in the past) when the execution starts: every policy is
// entered by an execution that is cancelled from the first instant on.  Stacks of timeout / retry / fallback / breaker
// (a bulkhead or rate limiter with a free permit may pick either ready case of its select).
func preCancelled(rng *Rng, n int, needTimeout bool, add func(InstD, []ReqD, string)) {
	for i := 0; i < n; i++ {
		g := &instGen{}
		limit := int64(2+rng.Intn(6))*1024 + 512
		var stack []PolD
		for d, depth := 0, 1+rng.Intn(3); d < depth; d++ {
			switch rng.Intn(4) {
			case 0:
				stack = append(stack, PolD{K: "Retry", MaxRetries: int64(1 + rng.Intn(2)), Delay: Pick(rng, []int64{0, 2048})})
			case 1:
				stack = append(stack, PolD{K: "Fallback", FBKind: Pick(rng, []string{"Echo", "WrapErr", "Result"}), FBR: 3})
			case 2:
				stack = append(stack, genPolicy(rng, "Breaker", d, g))
			default:
				stack = append(stack, PolD{K: "Timeout", Limit: limit + int64(d)})
			}
		}
		if needTimeout {
			stack = append(stack, PolD{K: "Timeout", Limit: limit + 7})
		} else if rng.Chance(35) {
			// a FULL bulkhead outermost (nothing to pick from: only the context's Done is ready), with and without a max wait
			mw := Pick(rng, []int64{0, 0, 4128})
			g.inst.Bulkheads = append(g.inst.Bulkheads, [3]int64{1, 1, mw})
			stack = append([]PolD{{K: "Bulkhead", Inst: len(g.inst.Bulkheads) - 1, MaxWait: mw}}, stack...)
		}
		coop := OutD{R: -5, Err: &ErrD{K: "Sent", A: 2}}
		step := FnStepD{Out: genOutcome(rng), Dur: Pick(rng, []int64{256, limit / 2, limit + 1024, 3*limit + 7})}
		if rng.Bool() {
			step.Coop, step.Lag = &coop, int64(1+rng.Intn(5))
		}
		rq := ReqD{Stack: stack, CtxKey: -1, Entry: Pick(rng, append(append([]string{}, execEntries...), plainEntries...)), Script: []FnStepD{step, {Out: OutD{R: 1}, Dur: 512}},
			ExtKind: Pick(rng, []string{"PreCancel", "PreCancel", "PreDeadline"})}
		if !strings.Contains(rq.Entry, "WithExecution") {
			rq.Script[0].Coop, rq.Script[0].Lag = nil, 0 // without an Execution the function cannot see the cancellation
		}
		if strings.HasPrefix(rq.Entry, "Run") {
			for k := range rq.Script {
				rq.Script[k].Out.R = 0
			}
			c0 := coop
			c0.R = 0
			if rq.Script[0].Coop != nil {
				rq.Script[0].Coop = &c0
			}
		}
		add(g.inst, []ReqD{rq}, "pre-cancelled")
	}
}

func TestDrive_C08(t *testing.T) {
	driveCancelAfterHedgeLoserProbes(t)
	pf := execProfile{name: "C08", kinds: []string{"Retry", "Retry", "Fallback", "Breaker", "Bulkhead", "Limiter", "Timeout"}, hedgePct: 20, maxDepth: 4, mustHave: "Retry", extPct: 0, coopPct: 60, maxReqs: 1}
	driveExec(t, "C08", pf, 0, 0,
		"single executions through stacks containing a retry policy (optionally with fallback, breaker, bulkhead, rate limiter, timeout); each scenario is first run without cancellation, then re-run with the caller's context cancelled (or its deadline reached, or -- async entry points -- ExecutionResult.Cancel() called) at instants taken from the uncancelled run's own event times, 1ns before and after them and midway between them, so that the cancellation lands inside the function, between attempts, during each kind of wait and before the first attempt. Non-trivial = the cancellation changed the outcome. "+execRule,
		func(w *CaseWriter, rng *Rng, add func(InstD, []ReqD, string)) {
			n := 110
			if envTier() == "thorough" {
				n = 4000
			}
			cancelledHandledResult(rng, n/5, true, add)
			slowFallbackCancelled(rng, n/4, add)
			slowRetryListenerCancelled(rng, n/4, add)
			timeoutCutsInnerWaitOnLaterAttempts(rng, n/5, add)
			cancelledLimiterWaitKeepsItsSlot(rng, n/5, add)
			preCancelled(rng, n/5, false, add)
			hedgeWinsThenCancelInDelay(rng, n/4, add)
			// a waiting policy OUTSIDE the retry policy, cancelled in the middle of its wait
			for i := 0; i < n/2; i++ {
				g := &instGen{}
				var outer PolD
				var waitFor int64
				if rng.Bool() {
					mw := int64(2+rng.Intn(6))*2048 + 32
					g.inst.Bulkheads = append(g.inst.Bulkheads, [3]int64{1, 1, mw})
					outer, waitFor = PolD{K: "Bulkhead", Inst: 0, MaxWait: mw}, mw
				} else {
					g.inst.Limiters = append(g.inst.Limiters, LimCfg{Smooth: true, ViaRate: true, Interval: 8192, MaxWait: 1 << 40})
					outer, waitFor = PolD{K: "Limiter", Inst: 0, MaxWait: 1 << 40}, 8192
				}
				stack := []PolD{outer, genPolicy(rng, "Retry", 1, g)}
				if rng.Chance(40) {
					stack = append([]PolD{genPolicy(rng, "Breaker", 0, g)}, stack...)
				}
				rq := ReqD{Stack: stack, CtxKey: -1, Entry: Pick(rng, append(append([]string{"GetAsync", "RunAsync", "GetWithExecutionAsync", "RunWithExecutionAsync"}, execEntries...), plainEntries...)),
					Script: []FnStepD{{Out: genOutcome(rng), Dur: genDur(rng)}, {Out: OutD{R: 1}, Dur: 1024}},
					ExtT:   1 + rng.I64n(waitFor-1), ExtKind: Pick(rng, []string{"Cancel", "Deadline"})}
				if strings.HasSuffix(rq.Entry, "Async") && rng.Chance(60) {
					rq.ExtKind = "AsyncCancel" // ExecutionResult.Cancel() in the middle of the outer policy's wait
				}
				if strings.HasPrefix(rq.Entry, "Run") {
					for k := range rq.Script {
						rq.Script[k].Out.R = 0
					}
				}
				if outer.K == "Limiter" { // a first execution uses up the current slot, the second one has to wait
					first := rq
					first.ExtT = 0
					add(g.inst, []ReqD{first, rq}, "outer-wait")
				} else {
					add(g.inst, []ReqD{rq}, "outer-wait")
				}
			}
			for i := 0; i < n; i++ {
				inst, reqs := genExecHistory(rng, pf)
				if !boundedScript(reqs) {
					continue
				}
				reqs[0].Gap = 0
				hasTimeout := false
				for _, p := range reqs[0].Stack {
					if p.K == "Timeout" {
						hasTimeout = true
					}
				}
				if hasTimeout { // exactly one cancellation source: a Timeout scenario is not cancelled from outside as well
					add(inst, reqs, "timeout-source")
					continue
				}
				base, start := runHistory(t, inst, reqs)
				add(inst, reqs, "uncancelled")
				var times []int64
				for _, ev := range base[0].Events {
					var tm int64
					if k := strings.LastIndex(ev, "e_time := "); k >= 0 {
						fmt.Sscanf(ev[k+len("e_time := "):], "%d", &tm)
						times = append(times, tm-start)
					}
				}
				times = append(times, base[0].End-start)
				for v := 0; v < 4 && len(times) > 0; v++ {
					tc := Pick(rng, times) + Pick(rng, []int64{-1, 1, 1, 0})
					if rng.Chance(30) && len(times) > 1 {
						a, b := Pick(rng, times), Pick(rng, times)
						tc = (a + b) / 2
					}
					if tc <= 0 {
						tc = 1
					}
					rq := reqs[0]
					rq.ExtT = tc
					rq.ExtKind = Pick(rng, []string{"Cancel", "Deadline"})
					if strings.HasSuffix(rq.Entry, "Async") && rng.Chance(50) {
						rq.ExtKind = "AsyncCancel"
					}
					add(inst, []ReqD{rq}, "cancel-sweep")
				}
			}
		})
}
