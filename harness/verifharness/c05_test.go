//go:build verif

package verifharness

import (
	"math"
	"context"
	"errors"
	"fmt"
	"strings"
	"sync"
	"testing"
	"testing/synctest"
	"time"

	"github.com/failsafe-go/failsafe-go"
	"github.com/failsafe-go/failsafe-go/ratelimiter"
)

// ---- C05: rate limiter histories through the public API, under a virtual clock ----

type LimCfg struct {
	Smooth   bool
	Interval int64 // smooth: interval handed to the model (period / maxExecutions or the max rate)
	ViaRate  bool  // smooth: SmoothBuilderWithMaxRate(interval) instead of SmoothBuilder(max, period)
	Max      int64 // smooth via (max, period), bursty
	Period   int64
	MaxWait  int64 // policy's configured max wait (used by the executor route)
}

func (c LimCfg) Gallina() string {
	if c.Smooth {
		return fmt.Sprintf("(Smooth %d)", c.Interval)
	}
	return fmt.Sprintf("(Bursty %d %d)", c.Max, c.Period)
}

func (c LimCfg) Width() int64 {
	if c.Smooth {
		return c.Interval
	}
	return c.Period
}

func (c LimCfg) Build() ratelimiter.RateLimiter[int] {
	var b ratelimiter.RateLimiterBuilder[int]
	switch {
	case c.Smooth && c.ViaRate:
		b = ratelimiter.SmoothBuilderWithMaxRate[int](time.Duration(c.Interval))
	case c.Smooth:
		b = ratelimiter.SmoothBuilder[int](uint(c.Max), time.Duration(c.Period))
	default:
		b = ratelimiter.BurstyBuilder[int](uint(c.Max), time.Duration(c.Period))
	}
	return b.WithMaxWaitTime(time.Duration(c.MaxWait)).Build()
}

type LimOp struct {
	T     int64  // stopwatch instant of the call
	Kind  string // TryAcquire Reserve TryReserve Acquire AcquireMax Exec
	K     int64
	MaxW  int64
	Plain bool // singular API form (k = 1)
	NilCx bool // nil context for the blocking forms
}

func (o LimOp) Gallina() string {
	switch o.Kind {
	case "TryAcquire":
		return fmt.Sprintf("(%d, OpTryAcquire %d)", o.T, o.K)
	case "Reserve":
		return fmt.Sprintf("(%d, OpReserve %d)", o.T, o.K)
	case "TryReserve":
		return fmt.Sprintf("(%d, OpTryReserve %d %s)", o.T, o.K, gZ(o.MaxW))
	case "Acquire":
		return fmt.Sprintf("(%d, OpAcquire %d)", o.T, o.K)
	default: // AcquireMax and Exec (the executor acquires one permit with the configured max wait)
		return fmt.Sprintf("(%d, OpAcquireMax %d %s)", o.T, o.K, gZ(o.MaxW))
	}
}

type limObs struct{ Val, Ret int64 }

func errCode(err error) int64 {
	switch {
	case err == nil:
		return 0
	case errors.Is(err, ratelimiter.ErrExceeded):
		return 1
	default:
		return 2
	}
}

// runLimiterHistory drives one fresh limiter through the history inside a bubble.
func runLimiterHistory(t *testing.T, cfg LimCfg, hist []LimOp) []limObs {
	obs := make([]limObs, len(hist))
	synctest.Test(t, func(t *testing.T) {
		start := time.Now()
		lim := cfg.Build()
		since := func() int64 { return int64(time.Since(start)) }
		var wg sync.WaitGroup
		for i, op := range hist {
			if d := op.T - since(); d > 0 {
				time.Sleep(time.Duration(d))
			}
			i, op := i, op
			ctx := context.Background()
			if op.NilCx {
				ctx = nil
			}
			switch op.Kind {
			case "TryAcquire":
				var ok bool
				if op.Plain {
					ok = lim.TryAcquirePermit()
				} else {
					ok = lim.TryAcquirePermits(uint(op.K))
				}
				v := int64(0)
				if ok {
					v = 1
				}
				obs[i] = limObs{v, since()}
			case "Reserve":
				var w time.Duration
				if op.Plain {
					w = lim.ReservePermit()
				} else {
					w = lim.ReservePermits(uint(op.K))
				}
				obs[i] = limObs{int64(w), since()}
			case "TryReserve":
				var w time.Duration
				if op.Plain {
					w = lim.TryReservePermit(time.Duration(op.MaxW))
				} else {
					w = lim.TryReservePermits(uint(op.K), time.Duration(op.MaxW))
				}
				obs[i] = limObs{int64(w), since()}
			case "Acquire":
				wg.Add(1)
				go func() {
					defer wg.Done()
					var err error
					if op.Plain {
						err = lim.AcquirePermit(ctx)
					} else {
						err = lim.AcquirePermits(ctx, uint(op.K))
					}
					obs[i] = limObs{errCode(err), since()}
				}()
				synctest.Wait()
			case "AcquireMax":
				wg.Add(1)
				go func() {
					defer wg.Done()
					var err error
					if op.Plain {
						err = lim.AcquirePermitWithMaxWait(ctx, time.Duration(op.MaxW))
					} else {
						err = lim.AcquirePermitsWithMaxWait(ctx, uint(op.K), time.Duration(op.MaxW))
					}
					obs[i] = limObs{errCode(err), since()}
				}()
				synctest.Wait()
			default: // Exec: the limiter as a policy; the function records the instant it starts
				wg.Add(1)
				go func() {
					defer wg.Done()
					started := int64(-1)
					_, err := failsafe.Get(func() (int, error) { started = since(); return 0, nil }, lim)
					if err == nil {
						obs[i] = limObs{0, started}
					} else {
						obs[i] = limObs{errCode(err), since()}
					}
				}()
				synctest.Wait()
			}
		}
		wg.Wait()
	})
	return obs
}

var limWidths = []int64{1, 3, 10, 1000, 7_000_000, 1_000_000_000, 3_600_000_000_000}

func genLimCfg(r *Rng) LimCfg {
	c := LimCfg{}
	switch r.Intn(5) {
	case 0, 1:
		c.Smooth = true
		c.ViaRate = true
		c.Interval = Pick(r, limWidths)
	case 2:
		c.Smooth = true
		c.Max = int64(1 + r.Intn(7))
		c.Period = Pick(r, limWidths[2:]) * int64(1+r.Intn(3))
		c.Interval = c.Period / c.Max
		if c.Interval == 0 {
			c.Max = 1
			c.Interval = c.Period
		}
	default:
		c.Max = int64(1 + r.Intn(7))
		c.Period = Pick(r, limWidths)
	}
	w := c.Width()
	c.MaxWait = Pick(r, []int64{-1, 0, 0, w - 1, w, w + 1, 3 * w, 1 << 50, math.MaxInt64})
	if c.MaxWait < -1 {
		c.MaxWait = 0
	}
	return c
}

func genLimHistory(r *Rng, c LimCfg, n int) []LimOp {
	w := c.Width()
	var t int64
	hist := make([]LimOp, 0, n)
	for i := 0; i < n; i++ {
		// advance the clock: same instant, boundaries +-1, fractions, idle gaps of several slots
		switch r.Intn(12) {
		case 0, 1, 2:
		case 3:
			t++
		case 4:
			t += w - 1
		case 5:
			t += w
		case 6:
			t += w + 1
		case 7:
			t = t - t%w + w // exactly the next boundary
		case 8:
			t = t - t%w + w - 1 // one tick before it
			if t < 0 {
				t = 0
			}
		case 9:
			t += r.I64n(w + 1)
		case 10:
			t += int64(2+r.Intn(11)) * w // idle gap of 2..12 slots
		default:
			t += int64(1+r.Intn(3))*w + r.I64n(w)
		}
		if len(hist) > 0 && t < hist[len(hist)-1].T {
			t = hist[len(hist)-1].T
		}
		op := LimOp{T: t}
		op.Kind = Pick(r, []string{"TryAcquire", "TryAcquire", "Reserve", "TryReserve", "TryReserve", "Acquire", "AcquireMax", "AcquireMax", "Exec"})
		op.K = 1
		if r.Chance(55) {
			op.K = int64(1 + r.Intn(5))
			if r.Chance(10) {
				op.K = int64(6 + r.Intn(9))
			}
		} else if op.Kind != "Exec" {
			op.Plain = r.Bool()
		}
		if op.Plain {
			op.K = 1
		}
		switch op.Kind {
		case "TryReserve", "AcquireMax":
			op.MaxW = Pick(r, []int64{-1, 0, 1, w - 1, w, w + 1, 2*w - 1, 2 * w, 3 * w, int64(1+r.Intn(4))*w - t%w, r.I64n(4*w + 1), 1 << 50, math.MaxInt64, math.MaxInt64 - 1})
			if op.MaxW < -1 {
				op.MaxW = 0
			}
		case "Exec":
			op.K = 1
			op.MaxW = c.MaxWait
		}
		if (op.Kind == "Acquire" || op.Kind == "AcquireMax") && r.Chance(20) {
			op.NilCx = op.Kind == "Acquire" // only AcquirePermits has a nil-context path of its own
		}
		hist = append(hist, op)
	}
	return hist
}

func TestDrive_C05(t *testing.T) {
	w := NewCaseWriter(t, "C05", "FS.Corr.C05")
	rng := NewRng(envSeed())
	n := 700
	if envTier() == "thorough" {
		n = 20000
	}
	add := func(c LimCfg, hist []LimOp, tag string) {
		obs := runLimiterHistory(t, c, hist)
		hs := make([]string, len(hist))
		os := make([]string, len(obs))
		refused, waited := 0, 0
		for i := range hist {
			hs[i] = hist[i].Gallina()
			os[i] = fmt.Sprintf("(%s, %d)", gZ(obs[i].Val), obs[i].Ret)
			switch hist[i].Kind {
			case "TryAcquire":
				if obs[i].Val == 0 {
					refused++
				}
			case "Reserve":
				if obs[i].Val > 0 {
					waited++
				}
			case "TryReserve":
				if obs[i].Val == -1 {
					refused++
				} else if obs[i].Val > 0 {
					waited++
				}
			default:
				if obs[i].Val == 1 {
					refused++
				} else if obs[i].Ret > hist[i].T {
					waited++
				}
			}
			w.Stat("op=" + hist[i].Kind)
		}
		w.Stat("cfg=" + map[bool]string{true: "smooth", false: "bursty"}[c.Smooth])
		w.Stat(fmt.Sprintf("refusals=%s", bucket(refused)))
		w.Stat(fmt.Sprintf("positive_waits=%s", bucket(waited)))
		w.Stat("gen=" + tag)
		hl, ol := gList(hs), gList(os)
		w.Add(func(id int) string {
			return fmt.Sprintf("mk_case %d %s\n  %s\n  %s", id, c.Gallina(), hl, ol)
		}, map[string]any{"cfg": c.Gallina(), "history": strings.Join(hs, "; "), "observed_(value,return_instant)": strings.Join(os, "; ")},
			refused > 0 && waited > 0, c.Gallina()+hl)
	}

	// corpus: the history that exposed finding F1 (bursty overshoot after a deficit and an idle gap)
	add(LimCfg{Max: 2, Period: 1_000_000_000}, []LimOp{
		{T: 0, Kind: "Reserve", K: 3}, {T: 2_000_000_001, Kind: "TryAcquire", K: 1, Plain: true},
		{T: 2_000_000_001, Kind: "TryAcquire", K: 1, Plain: true}, {T: 2_000_000_001, Kind: "TryAcquire", K: 1, Plain: true}}, "corpus")
	// a refused request followed by a roll-over (refusals cost nothing)
	add(LimCfg{Max: 3, Period: 1000}, []LimOp{
		{T: 0, Kind: "Reserve", K: 7}, {T: 1500, Kind: "TryReserve", K: 2, MaxW: 10}, {T: 3100, Kind: "TryAcquire", K: 3},
		{T: 3100, Kind: "TryAcquire", K: 1, Plain: true}}, "corpus")
	add(LimCfg{Smooth: true, ViaRate: true, Interval: 10}, []LimOp{
		{T: 0, Kind: "TryAcquire", K: 1, Plain: true}, {T: 9, Kind: "TryAcquire", K: 1}, {T: 10, Kind: "TryAcquire", K: 1},
		{T: 10, Kind: "TryReserve", K: 3, MaxW: 19}, {T: 10, Kind: "TryReserve", K: 3, MaxW: 20}, {T: 45, Kind: "Acquire", K: 2},
		{T: 45, Kind: "Exec", K: 1, MaxW: 0}}, "corpus")

	for i := 0; i < n; i++ {
		c := genLimCfg(rng)
		add(c, genLimHistory(rng, c, 5+rng.Intn(30)), "random")
	}
	w.Close("histories of 5-34 calls over all ten RateLimiter methods plus the limiter as a policy, on a fresh limiter under a virtual clock; instants advance by 0, 1ns, slot-1, slot, slot+1, to the exact next boundary (and 1ns before it), random fractions and idle gaps of 2-12 slots; permit counts 1-14; max waits 0, 1, slot+-1, multiples, the exact remaining time, huge. Observed: every returned value and the virtual instant each call returns (for the policy: the instant the function starts). Non-trivial = the history contains at least one refusal and at least one positive wait; distinct by (configuration, history).", nil)
}

func bucket(n int) string {
	switch {
	case n == 0:
		return "0"
	case n <= 2:
		return "1-2"
	case n <= 5:
		return "3-5"
	default:
		return "6+"
	}
}
