//go:build verif

package verifharness

import (
	"context"
	"errors"
	"fmt"
	"sync"
	"testing"
	"time"

	"github.com/failsafe-go/failsafe-go"
	"github.com/failsafe-go/failsafe-go/bulkhead"
)

// Direct probes (Corr/Probe.v): what must come out is fixed by the property itself.

func addProbe(w *CaseWriter, kind int, what string, trials, bad int, detail string) {
	w.Add(func(id int) string { return fmt.Sprintf("CaseProbe %d %d %d %d", id, kind, trials, bad) },
		map[string]any{"probe": what, "trials": trials, "bad": bad, "first_failure": detail}, true, fmt.Sprint("probe", kind))
	w.Stat(fmt.Sprintf("probe=%d", kind))
}

// C17, real time: an execution's clocks as its own function reads them -- the attempt never began before the execution
// did, and has not run for longer than the execution.  (In a virtual-time bubble the async runner starts at the instant of
// the submission; only the real clock moves between the two.)
func driveC17Probes(t *testing.T) {
	w := NewCaseWriterNamed(t, "C17p", "Corr.Probe")
	n := 200
	if envTier() == "thorough" {
		n = 5000
	}
	var mu sync.Mutex
	for kind, entry := range []string{"GetWithExecution", "RunWithExecution", "GetWithExecutionAsync", "RunWithExecutionAsync"} {
		bad, detail := 0, ""
		look := func(e failsafe.Execution[int]) {
			st, at := e.StartTime(), e.AttemptStartTime()
			ea, et := e.ElapsedAttemptTime(), e.ElapsedTime()
			// et is read after ea: it can only be larger unless the attempt's clock started earlier than the execution's
			if at.Before(st) || ea > et {
				mu.Lock()
				if bad == 0 {
					detail = fmt.Sprintf("%s: AttemptStartTime - StartTime = %v, ElapsedAttemptTime %v > ElapsedTime %v", entry, at.Sub(st), ea, et)
				}
				bad++
				mu.Unlock()
			}
		}
		for i := 0; i < n; i++ {
			ex := failsafe.NewExecutor[int]()
			switch entry {
			case "GetWithExecution":
				ex.GetWithExecution(func(e failsafe.Execution[int]) (int, error) { look(e); return 1, nil })
			case "RunWithExecution":
				ex.RunWithExecution(func(e failsafe.Execution[int]) error { look(e); return nil })
			case "GetWithExecutionAsync":
				ex.GetWithExecutionAsync(func(e failsafe.Execution[int]) (int, error) { look(e); return 1, nil }).Get()
			default:
				ex.RunWithExecutionAsync(func(e failsafe.Execution[int]) error { look(e); return nil }).Get()
			}
		}
		addProbe(w, 10+kind, "first attempt's clocks read inside the function through "+entry+": AttemptStartTime >= StartTime and ElapsedAttemptTime <= ElapsedTime", n, bad, detail)
	}
	w.Close("real-time probes of the clocks an execution shows to its own function (sync and async entry points that hand over an Execution). Every case is non-trivial.", nil)
}

// C06: the standalone API under cancellation, and builders that are used more than once.
func driveC06Probes(t *testing.T) {
	w := NewCaseWriterNamed(t, "C06p", "Corr.Probe")
	// ReleasePermit blocks when no permit is held: a release that does not return within 200 ms is reported (and undone)
	release := func(bh bulkhead.Bulkhead[int]) bool {
		done := make(chan struct{})
		go func() { bh.ReleasePermit(); close(done) }()
		select {
		case <-done:
			return true
		case <-time.After(200 * time.Millisecond):
			bh.TryAcquirePermit() // gives the blocked release something to take
			<-done
			return false
		}
	}
	free := func(bh bulkhead.Bulkhead[int], cap int) int { // permits that can be taken right now (and are handed back)
		n := 0
		for n <= cap && bh.TryAcquirePermit() {
			n++
		}
		for i := 0; i < n; i++ {
			release(bh)
		}
		return n
	}
	// 1. a standalone caller cancelled while it waits at a full bulkhead takes nothing and gives nothing back
	trials, bad, detail := 0, 0, ""
	for _, cap := range []int{1, 2, 3} {
		for _, how := range []string{"AcquirePermit, cancelled while waiting", "AcquirePermit, context already done", "AcquirePermitWithMaxWait, cancelled while waiting", "AcquirePermitWithMaxWait, context already done"} {
			trials++
			bh := bulkhead.Builder[int](uint(cap)).Build()
			for i := 0; i < cap; i++ {
				bh.TryAcquirePermit()
			}
			ctx, cancel := context.WithCancel(context.Background())
			if how == "AcquirePermit, context already done" || how == "AcquirePermitWithMaxWait, context already done" {
				cancel()
			}
			var err error
			done := make(chan struct{})
			go func() {
				defer close(done)
				if how[:len("AcquirePermitWith")] == "AcquirePermitWith" {
					err = bh.AcquirePermitWithMaxWait(ctx, time.Hour)
				} else {
					err = bh.AcquirePermit(ctx)
				}
			}()
			time.Sleep(5 * time.Millisecond) // the caller is waiting now (or has returned at once)
			cancel()
			<-done
			f0 := free(bh, cap)
			ok := errors.Is(err, context.Canceled) && f0 == 0
			for i := 0; i < cap; i++ {
				ok = release(bh) && ok
			}
			f1 := free(bh, cap)
			ok = ok && f1 == cap
			if !ok {
				if bad == 0 {
					detail = fmt.Sprintf("capacity %d, %s: error %v, free permits right afterwards %d (want 0), after the holders released theirs %d (want %d)", cap, how, err, f0, f1, cap)
				}
				bad++
			}
		}
	}
	addProbe(w, 1, "a standalone AcquirePermit / AcquirePermitWithMaxWait whose context is cancelled at a full bulkhead returns context.Canceled and leaves the permits as they were", trials, bad, detail)
	// 2. a bulkhead keeps its permits when its builder builds another one
	trials, bad, detail = 0, 0, ""
	for _, cap := range []int{1, 2, 3} {
		trials++
		b := bulkhead.Builder[int](uint(cap)).WithMaxWaitTime(0)
		bh1 := b.Build()
		for i := 0; i < cap; i++ {
			bh1.TryAcquirePermit()
		}
		bh2 := b.WithMaxWaitTime(time.Millisecond).Build()
		f1, f2 := free(bh1, cap), free(bh2, cap)
		ok := true
		for i := 0; i < cap; i++ {
			ok = release(bh1) && ok
		}
		g1, g2 := free(bh1, cap), free(bh2, cap)
		if !ok || f1 != 0 || f2 != cap || g1 != cap || g2 != cap {
			if bad == 0 {
				detail = fmt.Sprintf("capacity %d: first bulkhead full -> free %d (want 0), second %d (want %d); after releasing the first (all releases returned: %v): %d and %d", cap, f1, f2, cap, ok, g1, g2)
			}
			bad++
		}
	}
	addProbe(w, 2, "two bulkheads built from one builder have separate permits, and the first keeps the ones in use when the second is built", trials, bad, detail)
	w.Close("direct probes of the bulkhead's standalone API under cancellation and of builders used twice. Every case is non-trivial.", nil)
}
