//go:build verif

package verifharness

import (
	"bytes"
	"context"
	"crypto/x509"
	"errors"
	"fmt"
	"go/ast"
	"go/parser"
	"go/token"
	"io"
	"net/http"
	"os"
	"path/filepath"
	"sort"
	"strconv"
	"strings"
	"sync"
	"testing"
	"testing/synctest"
	"time"

	"github.com/failsafe-go/failsafe-go"
	"github.com/failsafe-go/failsafe-go/retrypolicy"
	"github.com/failsafe-go/failsafe-go/circuitbreaker"
	"github.com/failsafe-go/failsafe-go/failsafegrpc"
	"github.com/failsafe-go/failsafe-go/failsafehttp"
	"github.com/failsafe-go/failsafe-go/fallback"
	"github.com/failsafe-go/failsafe-go/hedgepolicy"
	"github.com/failsafe-go/failsafe-go/timeout"
	"google.golang.org/grpc"
	"google.golang.org/grpc/codes"
	"google.golang.org/grpc/metadata"
	"google.golang.org/grpc/status"
)

// ---- C18 / C19: the HTTP and gRPC adapters against scripted in-memory transports, in a virtual-time bubble ----

type ctxKeyT string

// customCtx is a context implementation from outside the standard library: the context package cannot link such a
// parent into its own tree and starts a goroutine to watch it instead
type customCtx struct{ context.Context }

// Value hides the context package's private "which cancelCtx am I" key (a *int), so that the package treats this
// context as foreign instead of seeing through the embedding
func (c customCtx) Value(key any) any {
	if _, private := key.(*int); private {
		return nil
	}
	return c.Context.Value(key)
}

const verifKey ctxKeyT = "verif-key"

// hSpec: what the scripted transport does for one attempt (Coq: attempt_result).
type hSpec struct {
	Status     int
	RetryAfter int    // seconds, -1 = no header
	Err        string // "" or one of the herr kinds
	Body       string
}

func (h hSpec) Gallina() string {
	if h.Err != "" {
		return "(AErr H" + h.Err + ")"
	}
	ra := "None"
	if h.RetryAfter >= 0 {
		ra = fmt.Sprintf("(Some %d)", h.RetryAfter)
	}
	return fmt.Sprintf("(AResp {| rs_status := %d; rs_retry_after := %s |})", h.Status, ra)
}

// ctxBody behaves like a transport body: reads fail once the request's context is done.
type ctxBody struct {
	ctx    context.Context
	r      *strings.Reader
	closed *int
	mu     *sync.Mutex
}

func (b *ctxBody) Read(p []byte) (int, error) {
	if err := b.ctx.Err(); err != nil {
		return 0, err
	}
	return b.r.Read(p)
}
func (b *ctxBody) Close() error { b.mu.Lock(); *b.closed++; b.mu.Unlock(); return nil }

type attemptObs struct {
	At          int64
	Method, URL string
	Header      string
	Body        string
	Value       any
	HasDeadline bool
	Deadline    int64
	Ctx         context.Context
}

type scriptedRT struct {
	mu      sync.Mutex
	script  []hSpec
	log     []attemptObs
	closed  int
	opened  int
	t0      time.Time
	level   string // "rt": errors are plain errors; "client": http.Client wraps them in *url.Error
}

func (s *scriptedRT) RoundTrip(req *http.Request) (*http.Response, error) {
	s.mu.Lock()
	i := len(s.log)
	sp := s.script[len(s.script)-1]
	if i < len(s.script) {
		sp = s.script[i]
	}
	o := attemptObs{At: int64(time.Since(s.t0)), Method: req.Method, URL: req.URL.String(), Header: req.Header.Get("X-Verif"), Ctx: req.Context(), Value: req.Context().Value(verifKey)}
	if d, ok := req.Context().Deadline(); ok {
		o.HasDeadline, o.Deadline = true, int64(d.Sub(s.t0))
	}
	s.mu.Unlock()
	if req.Body != nil {
		b, _ := io.ReadAll(req.Body)
		o.Body = string(b)
		req.Body.Close() // a RoundTripper closes the request body
	}
	s.mu.Lock()
	s.log = append(s.log, o)
	s.mu.Unlock()
	switch sp.Err {
	case "":
	case "UnsupportedScheme":
		return nil, errors.New("unsupported protocol scheme \"ftp\"")
	case "CertNotTrusted":
		return nil, errors.New("x509: certificate is not trusted")
	case "StoppedAfterRedirects":
		return nil, errors.New("stopped after 10 redirects")
	case "UnknownAuthority":
		return nil, x509.UnknownAuthorityError{}
	case "CtxCanceled":
		return nil, context.Canceled
	default:
		return nil, errors.New("connection reset by peer")
	}
	h := http.Header{}
	if sp.RetryAfter >= 0 {
		h.Set("Retry-After", strconv.Itoa(sp.RetryAfter))
	}
	s.mu.Lock()
	s.opened++
	s.mu.Unlock()
	return &http.Response{StatusCode: sp.Status, Header: h, Request: req,
		Body: &ctxBody{ctx: req.Context(), r: strings.NewReader(sp.Body), closed: &s.closed, mu: &s.mu}}, nil
}

// seekCloser behaves like an *os.File: seekable, random access, and Close is real -- nothing can be read from it afterwards.
// (The transport closes the body it is given when an attempt is over; the caller's body must survive that for the next attempt.)
type seekCloser struct {
	r      *bytes.Reader
	mu     sync.Mutex
	closed bool
}

func newSeekCloser(b []byte) *seekCloser { return &seekCloser{r: bytes.NewReader(b)} }
func (s *seekCloser) gone() error {
	s.mu.Lock()
	defer s.mu.Unlock()
	if s.closed {
		return os.ErrClosed
	}
	return nil
}
func (s *seekCloser) Read(p []byte) (int, error) {
	if err := s.gone(); err != nil {
		return 0, err
	}
	return s.r.Read(p)
}
func (s *seekCloser) ReadAt(p []byte, off int64) (int, error) {
	if err := s.gone(); err != nil {
		return 0, err
	}
	return s.r.ReadAt(p, off)
}
func (s *seekCloser) Seek(o int64, whence int) (int64, error) {
	if err := s.gone(); err != nil {
		return 0, err
	}
	return s.r.Seek(o, whence)
}
func (s *seekCloser) Close() error {
	s.mu.Lock()
	defer s.mu.Unlock()
	s.closed = true
	return nil
}

// pureSeeker can only Read, Seek and Close (no ReadAt)
type pureSeeker struct{ r *bytes.Reader }

func (s pureSeeker) Read(p []byte) (int, error)                { return s.r.Read(p) }
func (s pureSeeker) Seek(o int64, whence int) (int64, error) { return s.r.Seek(o, whence) }
func (pureSeeker) Close() error                               { return nil }

type badReader struct{}

func (badReader) Read([]byte) (int, error) { return 0, errors.New("the body cannot be read") }

type streamOnly struct{ r io.Reader }

func (s streamOnly) Read(p []byte) (int, error) { return s.r.Read(p) }

type httpCase struct {
	Script   []hSpec
	Level    string // rt client
	BodyKind string // None Seeker Stream Replaced
	Body     string
	ReqCtx   string // Background TODO Cancellable Values Deadline Custom CustomDone
	ExecCtx  string // Background Cancellable Custom
	Stack    string // retry retry+timeout retry+breaker fallback+retry
	RetryCfg string // "" (the default builder) | delay (WithDelay 50ms) | backoff (WithBackoff 10ms..500ms) besides the Retry-After delay function
}

type httpObs struct {
	Attempts    int
	Instants    []int64
	Bodies      []string
	SameRequest bool
	ValuesSeen  bool
	DeadlineSeen bool
	Status      int
	ErrKind     string
	BodyRead    string
	BodyReadErr string
	Closed      int
	Opened      int
	Leak        string
}

func runHTTPCase(t *testing.T, c httpCase) (o httpObs) {
	defer func() {
		if x := recover(); x != nil {
			o.Leak = fmt.Sprint(x)
		}
	}()
	synctest.Test(t, func(t *testing.T) {
		t0 := time.Now()
		rt := &scriptedRT{script: c.Script, t0: t0, level: c.Level}
		rpb := failsafehttp.RetryPolicyBuilder()
		switch c.RetryCfg {
		case "delay":
			rpb = rpb.WithDelay(50 * time.Millisecond)
		case "backoff":
			rpb = rpb.WithBackoff(10*time.Millisecond, 500*time.Millisecond)
		case "random":
			rpb = rpb.WithRandomDelay(time.Millisecond, 5*time.Millisecond)
		}
		rp := rpb.Build()
		var pols []failsafe.Policy[*http.Response]
		switch c.Stack {
		case "retry+timeout":
			pols = []failsafe.Policy[*http.Response]{rp, timeout.With[*http.Response](time.Hour)}
		case "retry+breaker":
			pols = []failsafe.Policy[*http.Response]{rp, circuitbreaker.Builder[*http.Response]().WithFailureThreshold(50).Build()}
		case "fallback+retry":
			pols = []failsafe.Policy[*http.Response]{fallback.BuilderWithFunc[*http.Response](func(e failsafe.Execution[*http.Response]) (*http.Response, error) {
				return e.LastResult(), e.LastError()
			}).HandleIf(func(*http.Response, error) bool { return false }).Build(), rp}
		default:
			pols = []failsafe.Policy[*http.Response]{rp}
		}
		ex := failsafe.NewExecutor[*http.Response](pols...)
		var execCancel context.CancelFunc = func() {}
		if c.ExecCtx == "Cancellable" || c.ExecCtx == "Custom" {
			var ectx context.Context
			ectx, execCancel = context.WithCancel(context.Background())
			if c.ExecCtx == "Custom" {
				ectx = customCtx{ectx}
			}
			ex = ex.WithContext(ectx)
		}
		ctx := context.Background()
		var reqCancel context.CancelFunc = func() {}
		switch c.ReqCtx {
		case "TODO":
			ctx = context.TODO()
		case "Cancellable":
			ctx, reqCancel = context.WithCancel(ctx)
		case "Values":
			ctx = context.WithValue(ctx, verifKey, "v")
		case "Deadline":
			ctx, reqCancel = context.WithDeadline(context.WithValue(ctx, verifKey, "v"), t0.Add(100*time.Hour))
		case "Custom":
			ctx, reqCancel = context.WithCancel(ctx)
			ctx = customCtx{ctx}
		case "CustomDone": // the request's context is already done when the call is made
			ctx, reqCancel = context.WithCancel(ctx)
			reqCancel()
			ctx = customCtx{ctx}
		}
		var body io.Reader
		switch c.BodyKind {
		case "Seeker":
			body = newSeekCloser([]byte(c.Body))
		case "Stream":
			body = streamOnly{strings.NewReader(c.Body)}
		case "BadStream":
			body = streamOnly{badReader{}} // a stream body that cannot be read: the call fails, and leaves nothing behind
		}
		url := "http://verif.invalid/path?q=1"
		if c.BodyKind == "Replaced" {
			body = bytes.NewReader([]byte("the template's body")) // net/http derives GetBody from it
		}
		req, err := http.NewRequestWithContext(ctx, "PUT", url, body)
		if err != nil {
			t.Fatal(err)
		}
		if c.BodyKind == "Replaced" {
			// a request derived from a template and given a body of its own (what a middleware that rewrites bodies does): Body is
			// what is sent; GetBody still describes the template and is not kept in step with it
			req.Body = io.NopCloser(streamOnly{strings.NewReader(c.Body)})
			req.ContentLength = int64(len(c.Body))
		}
		req.Header.Set("X-Verif", "hv")
		var resp *http.Response
		if c.Level == "client" {
			client := &http.Client{Transport: rt}
			resp, err = failsafehttp.NewRequestWithExecutor(req, client, ex).Do()
		} else {
			resp, err = failsafehttp.NewRoundTripperWithExecutor(rt, ex).RoundTrip(req)
		}
		o.Attempts = len(rt.log)
		o.SameRequest, o.ValuesSeen, o.DeadlineSeen = true, true, true
		for _, a := range rt.log {
			o.Instants = append(o.Instants, a.At)
			o.Bodies = append(o.Bodies, a.Body)
			if a.Method != "PUT" || a.URL != url || a.Header != "hv" {
				o.SameRequest = false
			}
			if (c.ReqCtx == "Values" || c.ReqCtx == "Deadline") && a.Value != "v" {
				o.ValuesSeen = false
			}
			if c.ReqCtx == "Deadline" && (!a.HasDeadline || a.Deadline != int64(100*time.Hour)) {
				o.DeadlineSeen = false
			}
		}
		if err != nil {
			o.ErrKind = errKindHTTP(err)
		} else if resp != nil {
			o.Status = resp.StatusCode
			b, rerr := io.ReadAll(resp.Body)
			o.BodyRead = string(b)
			if rerr != nil {
				o.BodyReadErr = rerr.Error()
			}
			resp.Body.Close()
		}
		rt.mu.Lock()
		o.Closed, o.Opened = rt.closed, rt.opened
		rt.mu.Unlock()
		// the caller is done with the request: its contexts stay alive (a server handling many requests on a long-lived context)
		time.Sleep(time.Hour)
		synctest.Wait()
		_ = reqCancel
		_ = execCancel
	})
	return
}

func errKindHTTP(err error) string {
	s := err.Error()
	switch {
	case strings.Contains(s, "retries exceeded"):
		return "Exceeded"
	case errors.Is(err, context.Canceled):
		return "CtxCanceled"
	case strings.Contains(s, "unsupported protocol scheme"):
		return "UnsupportedScheme"
	case strings.Contains(s, "certificate is not trusted"):
		return "CertNotTrusted"
	case strings.Contains(s, "redirects"):
		return "StoppedAfterRedirects"
	case strings.Contains(s, "unknown authority"):
		return "UnknownAuthority"
	default:
		return "Other"
	}
}

func rcfgGallina(k string) string {
	switch k {
	case "delay":
		return "(50000000, 0)"
	case "backoff":
		return "(10000000, 500000000)"
	case "random":
		return "(1000000, (-5000000))" // a negative second component: random delay in [first, -second]
	}
	return "(0, 0)"
}

func genHTTPCase(r *Rng) httpCase {
	c := httpCase{Level: Pick(r, []string{"rt", "client"}), BodyKind: Pick(r, []string{"None", "Seeker", "Stream", "Stream", "Replaced"}),
		ReqCtx: Pick(r, []string{"Background", "TODO", "Cancellable", "Values", "Deadline", "Custom"}), ExecCtx: Pick(r, []string{"Background", "Background", "Cancellable", "Custom"}),
		Stack: Pick(r, []string{"retry", "retry", "retry+timeout", "retry+breaker", "fallback+retry"})}
	c.RetryCfg = Pick(r, []string{"", "", "delay", "backoff", "backoff", "random"})
	c.Body = strings.Repeat("payload-", Pick(r, []int{0, 1, 8192, 131072}))
	if c.BodyKind == "None" {
		c.Body = ""
	}
	n := 1 + r.Intn(4)
	for i := 0; i < n; i++ {
		sp := hSpec{Status: Pick(r, []int{200, 200, 404, 429, 500, 501, 502, 503, 503, 429}), RetryAfter: -1, Body: "response-body"}
		if r.Chance(40) {
			sp.RetryAfter = r.Intn(4)
		}
		if r.Chance(25) {
			kinds := []string{"UrlOther", "UnsupportedScheme", "CtxCanceled"}
			if c.Level == "client" {
				kinds = append(kinds, "CertNotTrusted", "StoppedAfterRedirects", "UnknownAuthority")
			}
			sp.Err = Pick(r, kinds)
			if sp.Err == "UrlOther" && c.Level == "rt" {
				sp.Err = "PlainOther"
			}
		}
		c.Script = append(c.Script, sp)
	}
	return c
}

// ---- attempts that overlap in time (hedges; an abandoned attempt still draining the body while its retry runs) ----

type overlapCase struct {
	Stack    string // hedge retry+timeout
	Hedges   int
	Level    string
	BodyKind string // Stream Buffer BytesReader Seeker
	Size     int
	ReqCtx   string
}

// chunkRT reads the request body in two halves with a stall in between, then answers after a latency; it ignores
// cancellation like a transport whose write loop is still draining the body.
type chunkRT struct {
	mu      sync.Mutex
	n       int
	size    int
	stall   []time.Duration
	latency []time.Duration
	got     []string
	live    []bool
}

func (s *chunkRT) RoundTrip(req *http.Request) (*http.Response, error) {
	s.mu.Lock()
	i := s.n
	s.n++
	s.got = append(s.got, "")
	s.live = append(s.live, false)
	s.mu.Unlock()
	k := i
	if k >= len(s.stall) {
		k = len(s.stall) - 1
	}
	var buf bytes.Buffer
	if req.Body != nil {
		io.CopyN(&buf, req.Body, int64(s.size/2))
		time.Sleep(s.stall[k])
		io.Copy(&buf, req.Body)
		req.Body.Close() // a RoundTripper closes the request body
	}
	s.mu.Lock()
	s.got[i] = buf.String()
	s.live[i] = req.Context().Err() == nil
	s.mu.Unlock()
	time.Sleep(s.latency[k])
	return &http.Response{StatusCode: 200, Header: http.Header{}, Request: req, Body: io.NopCloser(strings.NewReader("ok"))}, nil
}

type overlapObs struct {
	Attempts int
	Live     int
	LiveOK   bool
	AllOK    bool
	Lens     []int
	Leak     string
}

func runOverlapCase(t *testing.T, c overlapCase) (o overlapObs) {
	defer func() {
		if x := recover(); x != nil {
			o.Leak = fmt.Sprint(x)
		}
	}()
	content := strings.Repeat("0123456789abcdef", c.Size/16+1)[:c.Size]
	synctest.Test(t, func(t *testing.T) {
		ms := time.Millisecond
		rt := &chunkRT{size: c.Size}
		var pols []failsafe.Policy[*http.Response]
		if c.Stack == "hedge" {
			// attempt k starts at 10k ms, reads its halves at 10k and 10k+25 ms: every attempt is mid-body when the next starts;
			// the last one answers first
			rt.stall = []time.Duration{25 * ms}
			rt.latency = []time.Duration{200 * ms, 100 * ms, 20 * ms}[2-c.Hedges:]
			pols = []failsafe.Policy[*http.Response]{hedgepolicy.BuilderWithDelay[*http.Response](10 * ms).WithMaxHedges(c.Hedges).Build()}
		} else {
			// attempt 1 stalls past its 15ms timeout and drains the rest of the body at 20ms, in the middle of attempt 2 (15ms, 23ms)
			rt.stall = []time.Duration{20 * ms, 8 * ms}
			rt.latency = []time.Duration{0, 0}
			pols = []failsafe.Policy[*http.Response]{failsafehttp.RetryPolicyBuilder().Build(), timeout.With[*http.Response](15 * ms)}
		}
		ctx := context.Background()
		var cancel context.CancelFunc = func() {}
		if c.ReqCtx == "Cancellable" {
			ctx, cancel = context.WithCancel(ctx)
		}
		var body io.Reader
		switch c.BodyKind {
		case "Stream":
			body = streamOnly{strings.NewReader(content)}
		case "Buffer":
			body = bytes.NewBufferString(content)
		case "BytesReader":
			body = bytes.NewReader([]byte(content))
		case "PureSeeker":
			body = pureSeeker{bytes.NewReader([]byte(content))}
		default:
			body = newSeekCloser([]byte(content))
		}
		req, err := http.NewRequestWithContext(ctx, "POST", "http://verif.invalid/overlap", body)
		if err != nil {
			t.Fatal(err)
		}
		ex := failsafe.NewExecutor[*http.Response](pols...)
		var resp *http.Response
		if c.Level == "client" {
			resp, err = failsafehttp.NewRequestWithExecutor(req, &http.Client{Transport: rt}, ex).Do()
		} else {
			resp, err = failsafehttp.NewRoundTripperWithExecutor(rt, ex).RoundTrip(req)
		}
		if err == nil && resp != nil {
			resp.Body.Close()
		}
		time.Sleep(time.Hour)
		synctest.Wait()
		cancel()
		rt.mu.Lock()
		o.Attempts, o.LiveOK, o.AllOK = rt.n, true, true
		for i, g := range rt.got {
			o.Lens = append(o.Lens, len(g))
			if g != content {
				o.AllOK = false
				if rt.live[i] {
					o.LiveOK = false
				}
			}
			if rt.live[i] {
				o.Live++
			}
		}
		rt.mu.Unlock()
	})
	return
}

func driveOverlap(w *CaseWriter, t *testing.T, rng *Rng) {
	n := 60
	if envTier() == "thorough" {
		n = 1500
	}
	for i := 0; i < n; i++ {
		c := overlapCase{Stack: Pick(rng, []string{"hedge", "hedge", "retry+timeout"}), Hedges: 1 + rng.Intn(2), Level: Pick(rng, []string{"rt", "client"}),
			BodyKind: Pick(rng, []string{"Stream", "Stream", "Buffer", "BytesReader", "Seeker", "PureSeeker"}), Size: Pick(rng, []int{2, 128, 8192, 70001}), ReqCtx: Pick(rng, []string{"Background", "Cancellable"})}
		o := runOverlapCase(t, c)
		kind := strings.TrimPrefix(c.BodyKind, "Pure")
		w.Add(func(id int) string {
			return fmt.Sprintf("CaseOverlap %d B%s %d %d %s %s %s", id, kind, o.Attempts, o.Live, gBool(o.LiveOK), gBool(o.AllOK), gBool(o.Leak != ""))
		}, map[string]any{"scenario": "overlapping attempts", "stack": c.Stack, "max_hedges": c.Hedges, "level": c.Level, "body_kind": c.BodyKind, "body_bytes": c.Size, "request_context": c.ReqCtx,
			"attempts": o.Attempts, "attempts_not_cancelled_when_body_read": o.Live, "bytes_received_per_attempt": o.Lens, "live_attempts_complete": o.LiveOK, "all_attempts_complete": o.AllOK, "leak": o.Leak},
			true, fmt.Sprint(c))
		w.Stat("overlap_stack=" + c.Stack)
		w.Stat("overlap_body=" + c.BodyKind)
	}
}

// ---- gRPC interceptors with fake invoker / handler ----

type grpcObs struct {
	Calls     int
	ArgsOK    bool
	MDSeen    bool
	ErrCode   int // -1 = nil, -2 = non-status error
	ReplyOK   bool
	Leak      string
}

func runGRPCClient(t *testing.T, codesScript []int, withTimeout bool) (o grpcObs) {
	return runGRPCClientCtx(t, codesScript, withTimeout, false)
}

func runGRPCClientCtx(t *testing.T, codesScript []int, withTimeout bool, custom bool) (o grpcObs) {
	defer func() {
		if x := recover(); x != nil {
			o.Leak = fmt.Sprint(x)
		}
	}()
	synctest.Test(t, func(t *testing.T) {
		rp := failsafegrpc.RetryPolicyBuilder[any]().Build()
		pols := []failsafe.Policy[any]{rp}
		if withTimeout {
			pols = append(pols, timeout.With[any](time.Hour))
		}
		ic := failsafegrpc.NewUnaryClientInterceptor[any](pols...)
		ctx := metadata.AppendToOutgoingContext(context.Background(), "k", "v")
		if custom { // a live caller context of a non-standard-library type
			cctx, ccancel := context.WithCancel(ctx) // stays alive: a server handling many calls on one long-lived context
			_ = ccancel
			ctx = customCtx{cctx}
		}
		reply := new(string)
		o.ArgsOK, o.MDSeen = true, true
		invoker := func(ictx context.Context, method string, req, rep any, cc *grpc.ClientConn, opts ...grpc.CallOption) error {
			i := o.Calls
			o.Calls++
			if method != "/svc/M" || req.(string) != "request" || rep != any(reply) || len(opts) != 2 {
				o.ArgsOK = false // incl. the caller's per-call options
			}
			if md, ok := metadata.FromOutgoingContext(ictx); !ok || len(md.Get("k")) != 1 {
				o.MDSeen = false
			}
			c := codesScript[len(codesScript)-1]
			if i < len(codesScript) {
				c = codesScript[i]
			}
			switch {
			case c == -1:
				*reply = "ok"
				return nil
			case c == -2:
				return errors.New("plain")
			default:
				if (i+len(codesScript))%2 == 1 {
					// an interceptor chained below annotates the error: the status is still what the call ended with
					return fmt.Errorf("annotated below: %w", status.Error(codes.Code(c), "scripted"))
				}
				return status.Error(codes.Code(c), "scripted")
			}
		}
		var hdr, trl metadata.MD
		err := ic(ctx, "/svc/M", "request", reply, nil, invoker, grpc.Header(&hdr), grpc.Trailer(&trl))
		switch {
		case err == nil:
			o.ErrCode = -1
		default:
			if s, ok := status.FromError(err); ok {
				o.ErrCode = int(s.Code())
			} else if strings.Contains(err.Error(), "retries exceeded") {
				o.ErrCode = -3
			} else {
				o.ErrCode = -2
			}
		}
		o.ReplyOK = err != nil || *reply == "ok"
		time.Sleep(time.Hour)
		synctest.Wait()
	})
	return
}

func runGRPCServer(t *testing.T, withTimeout bool) (o grpcObs) {
	defer func() {
		if x := recover(); x != nil {
			o.Leak = fmt.Sprint(x)
		}
	}()
	synctest.Test(t, func(t *testing.T) {
		var pols []failsafe.Policy[any]
		if withTimeout {
			pols = append(pols, timeout.With[any](time.Hour))
		}
		ic := failsafegrpc.NewUnaryServerInterceptor[any](pols...)
		ctx := metadata.NewIncomingContext(context.Background(), metadata.Pairs("k", "v"))
		o.ArgsOK, o.MDSeen = true, true
		resp, err := ic(ctx, "request", &grpc.UnaryServerInfo{FullMethod: "/svc/M"}, func(hctx context.Context, req any) (any, error) {
			o.Calls++
			if req.(string) != "request" {
				o.ArgsOK = false
			}
			if md, ok := metadata.FromIncomingContext(hctx); !ok || len(md.Get("k")) != 1 {
				o.MDSeen = false
			}
			return "reply", nil
		})
		o.ErrCode = -1
		if err != nil {
			o.ErrCode = -2
		}
		o.ReplyOK = resp == any("reply")
		time.Sleep(time.Hour)
		synctest.Wait()
	})
	return
}

func TestDrive_C18(t *testing.T) { driveAdapters(t, "C18") }
func TestDrive_C19(t *testing.T) { driveAdapters(t, "C19") }

func driveAdapters(t *testing.T, prop string) {
	w := NewCaseWriter(t, prop, "FS.Corr."+prop)
	w.shardCap = envInt("VERIF_SHARD", 150)
	w.Header = "Open Scope string_scope.\n"
	rng := NewRng(envSeed())
	if prop == "C19" {
		driveCoreLeaks(t, w, rng)
		driveCustomCtxLeaks(t, w)
	}
	n := 260
	if envTier() == "thorough" {
		n = 6000
	}
	for i := 0; i < n; i++ {
		c := genHTTPCase(rng)
		o := runHTTPCase(t, c)
		ss := make([]string, len(c.Script))
		for k, sp := range c.Script {
			ss[k] = sp.Gallina()
		}
		is := make([]string, len(o.Instants))
		for k, v := range o.Instants {
			is[k] = fmt.Sprint(v)
		}
		bodiesOK := true
		for _, b := range o.Bodies {
			if b != c.Body {
				bodiesOK = false
			}
		}
		expectBody := ""
		if o.Status != 0 {
			expectBody = "response-body"
		}
		bothCtx := c.ReqCtx != "Background" && (c.ExecCtx != "Background" || c.Stack == "retry+timeout")
		sl, il := gList(ss), gList(is)
		w.Add(func(id int) string {
			return fmt.Sprintf("CaseHTTP %d %s %s %s %d %s %d %d %s %s %s %s %s %s %d %d %s", id, sl, gBool(c.Level == "client"), rcfgGallina(c.RetryCfg), o.Attempts, il, o.Status,
				errCodeHTTP(o.ErrKind), gBool(bodiesOK), gBool(o.SameRequest), gBool(o.ValuesSeen), gBool(o.DeadlineSeen),
				gBool(o.BodyRead == expectBody && o.BodyReadErr == ""), gBool(bothCtx), o.Opened, o.Closed, gBool(o.Leak != ""))
		}, map[string]any{"script": strings.Join(ss, " "), "level": c.Level, "body_kind": c.BodyKind, "body_bytes": len(c.Body), "request_context": c.ReqCtx, "executor_context": c.ExecCtx,
			"stack": c.Stack, "retry_delay_config": c.RetryCfg, "attempts": o.Attempts, "attempt_instants_ns": o.Instants, "returned_status": o.Status, "returned_error": o.ErrKind, "every_attempt_full_body": bodiesOK,
			"values_seen": o.ValuesSeen, "deadline_seen": o.DeadlineSeen, "returned_body_read_error": o.BodyReadErr, "responses_opened": o.Opened, "responses_closed": o.Closed, "leak": o.Leak},
			o.Attempts >= 2, fmt.Sprint(c))
		w.Stat("http_level=" + c.Level)
		w.Stat("http_body=" + c.BodyKind)
		w.Stat("http_reqctx=" + c.ReqCtx)
		w.Stat("http_stack=" + c.Stack)
		w.Stat("http_retrycfg=" + c.RetryCfg)
		w.Stat("http_attempts=" + bucket(o.Attempts))
	}
	driveOverlap(w, t, rng)
	// the body reader, called directly for every body kind (incl. partially consumed ones)
	for _, kind := range []string{"Buffer", "BytesReader", "Seeker", "PureSeeker", "Stream", "None", "Unsupported"} {
		for _, size := range []int{0, 1, 5, 70000} {
			for _, off := range []int{0, 1, 3} {
				if off > size {
					continue
				}
				content := strings.Repeat("x", size)
				if size >= 5 {
					content = "abcde" + content[5:]
				}
				var body any
				switch kind {
				case "Buffer":
					b := bytes.NewBufferString(content)
					b.Next(off)
					body = b
				case "BytesReader":
					b := bytes.NewReader([]byte(content))
					b.Seek(int64(off), 0)
					body = b
				case "Seeker":
					b := strings.NewReader(content)
					b.Seek(int64(off), 0)
					body = b
				case "PureSeeker":
					b := bytes.NewReader([]byte(content))
					b.Seek(int64(off), 0)
					body = pureSeeker{b}
				case "Stream":
					b := strings.NewReader(content)
					b.Seek(int64(off), 0)
					body = streamOnly{b}
				case "Unsupported":
					body = 42
				}
				fn, err := failsafehttp.BodyReaderForVerif(body)
				ok := true
				var lens []string
				if err == nil && fn != nil {
					for a := 0; a < 3; a++ {
						rd, rerr := fn()
						if rerr != nil {
							ok = false
							break
						}
						got, _ := io.ReadAll(rd)
						want := content[off:]
						if kind == "Seeker" || kind == "PureSeeker" {
							want = content
						}
						if string(got) != want {
							ok = false
						}
						lens = append(lens, fmt.Sprint(len(got)))
					}
				}
				k, sz, of := kind, size, off
				w.Add(func(id int) string {
					return fmt.Sprintf("CaseBody %d B%s %d %d%%nat %s %s %s", id, strings.TrimPrefix(k, "Pure"), sz, of, gBool(err != nil), gBool(fn == nil), gBool(ok))
				}, map[string]any{"body_kind": kind, "size": size, "already_consumed": off, "error": err != nil, "no_body": fn == nil, "three_attempts_read_lengths": lens, "each_attempt_complete": ok},
					true, fmt.Sprint("body", kind, size, off))
				w.Stat("bodyreader=" + kind)
			}
		}
	}
	// gRPC
	for _, wt := range []bool{false, true} {
		for _, sc := range [][]int{{-1}, {14, -1}, {4, 8, -1}, {14, 14, 14, 14}, {5}, {13, -1}, {-2}, {8, 5}} {
			o := runGRPCClient(t, sc, wt)
			cs := make([]string, len(sc))
			for i, c := range sc {
				cs[i] = gZ(int64(c))
			}
			cl := gList(cs)
			w.Add(func(id int) string {
				return fmt.Sprintf("CaseGRPC %d %s %d %s %s %s %s %s", id, cl, o.Calls, gZ(int64(o.ErrCode)), gBool(o.ArgsOK), gBool(o.MDSeen), gBool(o.ReplyOK), gBool(o.Leak != ""))
			}, map[string]any{"grpc": "client interceptor", "codes_script": sc, "with_timeout": wt, "invocations": o.Calls, "returned_code": o.ErrCode, "arguments_unchanged": o.ArgsOK,
				"outgoing_metadata_seen": o.MDSeen, "reply_written": o.ReplyOK, "leak": o.Leak}, len(sc) >= 2, fmt.Sprint("grpc", sc, wt))
			w.Stat("grpc_client")
		}
		o := runGRPCServer(t, wt)
		w.Add(func(id int) string {
			return fmt.Sprintf("CaseGRPC %d [(-1)] %d %s %s %s %s %s", id, o.Calls, gZ(int64(o.ErrCode)), gBool(o.ArgsOK), gBool(o.MDSeen), gBool(o.ReplyOK), gBool(o.Leak != ""))
		}, map[string]any{"grpc": "server interceptor", "with_timeout": wt, "handler_calls": o.Calls, "arguments_unchanged": o.ArgsOK, "incoming_metadata_seen": o.MDSeen, "reply_unchanged": o.ReplyOK, "leak": o.Leak},
			true, fmt.Sprint("grpcserver", wt))
		w.Stat("grpc_server")
	}
	w.Close("(1) requests through failsafehttp.NewRoundTripper and NewRequest with a scripted in-memory transport inside a virtual-time bubble: scripts of 1-4 server behaviours (statuses 200/404/429/500/501/502/503, Retry-After seconds, connection / scheme / certificate / redirect / authority / cancellation errors), bodies none / seekable / stream of 0-1MiB, request context Background/TODO/cancellable/with values/with deadline, executor context Background/cancellable, stacks retry / retry+timeout / retry+breaker / fallback+retry, the retry policy being the default builder's or additionally configured with WithDelay(50ms) / WithBackoff(10ms, 500ms) / WithRandomDelay(1ms, 5ms); observed per attempt: instant, method, URL, header, body bytes, context value and deadline; returned status or error, readability of the returned body (the transport's body fails once its request context is done), responses opened/closed, goroutines still blocked one hour after the call returned (bubble leak oracle); (1b) attempts that overlap in time (a hedge started while earlier attempts are half-way through the body; a timed-out attempt whose transport drains the rest of the body in the middle of its retry) with stream / buffer / bytes.Reader / seekable bodies of 2 B-70 kB: bytes received by every attempt; (2) the body reader called directly for every body kind, size and already-consumed prefix, three attempts each; (3) the gRPC client and server interceptors with scripted status codes, arguments, reply and metadata. Non-trivial = at least two attempts / every body and gRPC case; distinct by inputs.", nil)
}

func errCodeHTTP(k string) int {
	switch k {
	case "":
		return 0
	case "Exceeded":
		return 1
	case "CtxCanceled":
		return 2
	case "UnsupportedScheme":
		return 3
	case "CertNotTrusted":
		return 4
	case "StoppedAfterRedirects":
		return 5
	case "UnknownAuthority":
		return 6
	default:
		return 7
	}
}

// ---- C19: spawn sites from the sources, and core-library scenarios under the bubble leak oracle ----

func scanSpawnSites(root string) ([]string, error) {
	fset := token.NewFileSet()
	var out []string
	err := filepath.Walk(root, func(path string, info os.FileInfo, err error) error {
		if err != nil {
			return err
		}
		rel, _ := filepath.Rel(root, path)
		if info.IsDir() {
			if rel == "examples" || rel == "verifharness" || rel == "internal/testutil" || rel == "internal/policytesting" || rel == "test" || strings.HasPrefix(rel, ".") && rel != "." {
				return filepath.SkipDir
			}
			return nil
		}
		if !strings.HasSuffix(path, ".go") || strings.HasSuffix(path, "_test.go") {
			return nil
		}
		f, perr := parser.ParseFile(fset, path, nil, 0)
		if perr != nil {
			return perr
		}
		for _, d := range f.Decls {
			fd, ok := d.(*ast.FuncDecl)
			if !ok || fd.Body == nil {
				continue
			}
			ast.Inspect(fd.Body, func(n ast.Node) bool {
				switch x := n.(type) {
				case *ast.GoStmt:
					out = append(out, fmt.Sprintf("(%q, %q, \"go\")", rel, fd.Name.Name))
				case *ast.CallExpr:
					if sel, ok := x.Fun.(*ast.SelectorExpr); ok {
						if id, ok := sel.X.(*ast.Ident); ok && (id.Name == "time" || id.Name == "context") {
							switch sel.Sel.Name {
							case "NewTimer", "AfterFunc", "WithCancel", "WithCancelCause", "WithTimeout", "WithDeadline", "NewTicker", "After", "Tick":
								out = append(out, fmt.Sprintf("(%q, %q, %q)", rel, fd.Name.Name, sel.Sel.Name))
							}
						}
					}
				}
				return true
			})
		}
		return nil
	})
	sort.Strings(out)
	var uniq []string
	for i, s := range out {
		if i == 0 || s != out[i-1] {
			uniq = append(uniq, s)
		}
	}
	return uniq, err
}

func leakOf(f func()) (leak string) {
	defer func() {
		if x := recover(); x != nil {
			leak = fmt.Sprint(x)
		}
	}()
	f()
	return ""
}

// adapters with contexts of a non-standard-library type: whatever the call returns, nothing may be left behind
func driveCustomCtxLeaks(t *testing.T, w *CaseWriter) {
	for _, rc := range []string{"Custom", "CustomDone"} {
		for _, ec := range []string{"Custom", "Cancellable", "Background"} {
			for _, stack := range []string{"retry", "retry+timeout"} {
				for _, script := range [][]hSpec{{{Status: 200, RetryAfter: -1, Body: "b"}}, {{Status: 503, RetryAfter: -1, Body: "b"}, {Status: 200, RetryAfter: -1, Body: "b"}}} {
					for _, bk := range []string{"None", "BadStream"} {
						c := httpCase{Script: script, Level: "rt", BodyKind: bk, ReqCtx: rc, ExecCtx: ec, Stack: stack}
						o := runHTTPCase(t, c)
						leak := o.Leak
						w.Add(func(id int) string { return fmt.Sprintf("CaseCore %d 3 %s", id, gBool(leak != "")) },
							map[string]any{"scenario": "HTTP adapter, custom context types", "request_context": rc, "executor_context": ec, "stack": stack, "body": bk, "attempts": o.Attempts, "leak": leak},
							true, fmt.Sprint("customctx", rc, ec, stack, len(script), bk))
						w.Stat("custom_ctx_http")
					}
				}
			}
		}
	}
	for _, wt := range []bool{false, true} {
		for _, sc := range [][]int{{-1}, {14, -1}, {5}} {
			o := runGRPCClientCtx(t, sc, wt, true)
			leak := o.Leak
			w.Add(func(id int) string { return fmt.Sprintf("CaseCore %d 4 %s", id, gBool(leak != "")) },
				map[string]any{"scenario": "gRPC client interceptor, custom caller context", "codes_script": sc, "with_timeout": wt, "leak": leak}, true, fmt.Sprint("customctx-grpc", sc, wt))
			w.Stat("custom_ctx_grpc")
		}
	}
}

func driveCoreLeaks(t *testing.T, w *CaseWriter, rng *Rng) {
	sites, err := scanSpawnSites(repoRoot())
	if err != nil {
		t.Fatalf("cannot scan %s: %v", repoRoot(), err)
	}
	lit := "[" + strings.Join(sites, "; ") + "]%string"
	w.Add(func(id int) string { return fmt.Sprintf("CaseSites %d %s", id, lit) }, map[string]any{"spawn_sites": sites}, true, "sites")
	w.Stat(fmt.Sprintf("spawn_sites=%d", len(sites)))
	n := 150
	if envTier() == "thorough" {
		n = 5000
	}
	// executions through random stacks (timeouts, cancellations, rejections), then a virtual hour
	pf := execProfile{name: "C19", kinds: allKinds, maxDepth: 5, extPct: 25, coopPct: 40, maxReqs: 3, hedgePct: 20}
	for i := 0; i < n; i++ {
		inst, reqs := genExecHistory(rng, pf)
		if !boundedScript(reqs) {
			continue
		}
		late := 0
		leak := leakOf(func() {
			obs, _ := runHistory(t, inst, reqs)
			if len(obs) > 0 {
				late = obs[len(obs)-1].Late
			}
		})
		if leak == "" && late > 0 {
			leak = fmt.Sprintf("%d listener or function log entries were written during the hour after the last execution had completed (a timer left armed?)", late)
		}
		w.Add(func(id int) string { return fmt.Sprintf("CaseCore %d 1 %s", id, gBool(leak != "")) },
			map[string]any{"scenario": "executions through a random stack", "requests": len(reqs), "leak": leak}, len(reqs[0].Stack) >= 2, fmt.Sprint("core", i))
		w.Stat("core=stack")
	}
	// executions whose caller's context is already done when they start (every policy is entered cancelled), then the hour
	preCancelled(rng, n/3, true, func(inst InstD, reqs []ReqD, _ string) {
		late := 0
		leak := leakOf(func() {
			obs, _ := runHistory(t, inst, reqs)
			if len(obs) > 0 {
				late = obs[len(obs)-1].Late
			}
		})
		if leak == "" && late > 0 {
			leak = fmt.Sprintf("%d listener or function log entries were written during the hour after the last execution had completed (a timer left armed?)", late)
		}
		w.Add(func(id int) string { return fmt.Sprintf("CaseCore %d 5 %s", id, gBool(leak != "")) },
			map[string]any{"scenario": "execution started with a context that is already done", "stack_depth": len(reqs[0].Stack), "leak": leak}, true, fmt.Sprint("pre", w.Total))
		w.Stat("core=pre-cancelled")
	})
	// executions cancelled while a retry policy's own failure listener runs, then the hour
	slowRetryListenerCancelled(rng, n/3, func(inst InstD, reqs []ReqD, _ string) {
		late := 0
		leak := leakOf(func() {
			obs, _ := runHistory(t, inst, reqs)
			if len(obs) > 0 {
				late = obs[len(obs)-1].Late
			}
		})
		if leak == "" && late > 0 {
			leak = fmt.Sprintf("%d listener or function log entries were written during the hour after the last execution had completed (a timer left armed?)", late)
		}
		w.Add(func(id int) string { return fmt.Sprintf("CaseCore %d 6 %s", id, gBool(leak != "")) },
			map[string]any{"scenario": "execution cancelled while the retry policy's failure listener runs", "stack_depth": len(reqs[0].Stack), "leak": leak}, true, fmt.Sprint("lsn", w.Total))
		w.Stat("core=cancelled-in-failure-listener")
	})
	// asynchronous executions whose ExecutionResult nobody ever looks at (fire and forget), or that are cancelled and dropped:
	// the goroutine the library started for the execution ends with the execution
	for _, entry := range []string{"GetAsync", "GetWithExecutionAsync", "RunAsync", "RunWithExecutionAsync"} {
		for _, how := range []string{"succeeds", "fails", "retried", "cancelled-and-dropped", "with-context"} {
			leak := leakOf(func() {
				synctest.Test(t, func(t *testing.T) {
					var pols []failsafe.Policy[int]
					if how == "retried" || how == "cancelled-and-dropped" {
						pols = append(pols, retrypolicy.Builder[int]().WithMaxRetries(2).WithDelay(time.Second).Build())
					}
					ex := failsafe.NewExecutor[int](pols...).OnDone(func(failsafe.ExecutionDoneEvent[int]) {})
					if how == "with-context" {
						ctx, cancel := context.WithCancel(context.Background())
						defer cancel()
						ex = ex.WithContext(ctx)
					}
					fn := func() (int, error) {
						time.Sleep(time.Millisecond)
						if how == "succeeds" || how == "with-context" {
							return 1, nil
						}
						return 0, errors.New("failed")
					}
					var ar failsafe.ExecutionResult[int]
					switch entry {
					case "GetAsync":
						ar = ex.GetAsync(fn)
					case "GetWithExecutionAsync":
						ar = ex.GetWithExecutionAsync(func(failsafe.Execution[int]) (int, error) { return fn() })
					case "RunAsync":
						ar = ex.RunAsync(func() error { _, e := fn(); return e })
					default:
						ar = ex.RunWithExecutionAsync(func(failsafe.Execution[int]) error { _, e := fn(); return e })
					}
					if how == "cancelled-and-dropped" {
						time.Sleep(500 * time.Millisecond)
						ar.Cancel()
					}
					ar = nil
					time.Sleep(time.Hour)
					synctest.Wait()
				})
			})
			w.Add(func(id int) string { return fmt.Sprintf("CaseCore %d 7 %s", id, gBool(leak != "")) },
				map[string]any{"scenario": "asynchronous execution whose result is never collected", "entry": entry, "how": how, "leak": leak}, true, fmt.Sprint("forget", entry, how))
			w.Stat("core=fire-and-forget")
		}
	}
	// a hedge policy around a retry policy: one branch waits out a long retry delay (a library wait) when the hedged run ends --
	// with a result that arrives while the policy is busy starting the next hedge (a slow OnHedge listener), or at any other
	// moment: the branch is cancelled and gone afterwards
	for _, slowListener := range []bool{false, true} {
		for _, winnerDur := range []time.Duration{5 * time.Millisecond, 12 * time.Millisecond, 25 * time.Millisecond} {
			leak := leakOf(func() {
				synctest.Test(t, func(t *testing.T) {
					hb := hedgepolicy.BuilderWithDelay[int](10 * time.Millisecond).WithMaxHedges(2)
					if slowListener {
						hb = hb.OnHedge(func(failsafe.ExecutionEvent[int]) { time.Sleep(8 * time.Millisecond) })
					}
					rp := retrypolicy.Builder[int]().WithMaxRetries(2).WithDelay(100 * time.Hour).Build()
					calls := 0
					failsafe.NewExecutor[int](hb.Build(), rp).GetWithExecution(func(e failsafe.Execution[int]) (int, error) {
						calls++
						if !e.IsHedge() {
							return 0, errors.New("the first branch fails at once and waits for its retry")
						}
						time.Sleep(winnerDur)
						return 1, nil
					})
					time.Sleep(time.Hour)
					synctest.Wait()
				})
			})
			w.Add(func(id int) string { return fmt.Sprintf("CaseCore %d 8 %s", id, gBool(leak != "")) },
				map[string]any{"scenario": "hedge policy around a retry policy, one branch in its retry delay when the run ends", "slow_OnHedge_listener": slowListener, "winner_takes_ms": winnerDur.Milliseconds(), "leak": leak}, true, fmt.Sprint("hedge-retry", slowListener, winnerDur))
			w.Stat("core=hedge-around-retry")
		}
	}
	// hedged executions, incl. cancelled ones and attempts that ignore the cancellation
	for i := 0; i < n; i++ {
		h := genHedgeCase(rng)
		leak := leakOf(func() { runHedge(t, h) })
		w.Add(func(id int) string { return fmt.Sprintf("CaseCore %d 2 %s", id, gBool(leak != "")) },
			map[string]any{"scenario": "hedged execution", "max_hedges": h.Max, "external_cancel": h.ExtT > 0, "leak": leak}, h.Max >= 1, fmt.Sprint("hedge", i))
		w.Stat("core=hedge")
	}
}
