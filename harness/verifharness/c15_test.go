//go:build verif

package verifharness

import (
	"github.com/failsafe-go/failsafe-go/hedgepolicy"
	"context"
	"errors"
	"fmt"
	"strings"
	"sync"
	"sync/atomic"
	"testing"
	"testing/synctest"
	"time"

	"github.com/failsafe-go/failsafe-go"
	"github.com/failsafe-go/failsafe-go/retrypolicy"
	"github.com/failsafe-go/failsafe-go/fallback"
	"github.com/failsafe-go/failsafe-go/timeout"
)

// ---- C15: async results ----

// futureReaders observes one async execution with n concurrent readers inside a bubble.
func futureReaders(t *testing.T, n int, entry string, dur time.Duration, failing bool) (getsOk []bool, isDoneBefore, doneBefore, isDoneAfter, doneAfter, listenersBeforeClose bool) {
	synctest.Test(t, func(t *testing.T) {
		var onDone atomic.Bool
		rp := retrypolicy.Builder[int]().WithMaxRetries(1).WithDelay(time.Millisecond).Build()
		ex := failsafe.NewExecutor[int](rp).OnDone(func(failsafe.ExecutionDoneEvent[int]) { onDone.Store(true) })
		fn := func() (int, error) {
			time.Sleep(dur)
			if failing {
				return 3, sent(0).Build()
			}
			return 3, nil
		}
		var ar failsafe.ExecutionResult[int]
		switch entry {
		case "GetAsync":
			ar = ex.GetAsync(fn)
		case "GetWithExecutionAsync":
			ar = ex.GetWithExecutionAsync(func(failsafe.Execution[int]) (int, error) { return fn() })
		case "RunAsync":
			ar = ex.RunAsync(func() error { _, e := fn(); return e })
		default:
			ar = ex.RunWithExecutionAsync(func(failsafe.Execution[int]) error { _, e := fn(); return e })
		}
		total := dur
		if failing {
			total = 2*dur + time.Millisecond
		}
		start := time.Now()
		getsOk = make([]bool, n)
		var wg sync.WaitGroup
		type val struct {
			r   int
			err error
		}
		vals := make([]val, n)
		for i := 0; i < n; i++ {
			i := i
			wg.Add(1)
			go func() {
				defer wg.Done()
				time.Sleep(time.Duration(i) * total / time.Duration(n+1)) // readers arrive before and around completion
				var v val
				switch i % 3 {
				case 0:
					v.r, v.err = ar.Get()
				case 1:
					v.r, v.err = ar.Result(), ar.Error()
				default:
					<-ar.Done()
					v.r, v.err = ar.Get()
				}
				vals[i] = v
				getsOk[i] = time.Since(start) >= total // returned only once the execution had completed
			}()
		}
		time.Sleep(total / 2)
		synctest.Wait()
		isDoneBefore = ar.IsDone()
		select {
		case <-ar.Done():
			doneBefore = true
		default:
		}
		<-ar.Done()
		listenersBeforeClose = onDone.Load()
		wg.Wait()
		isDoneAfter = ar.IsDone()
		select {
		case <-ar.Done():
			doneAfter = true
		default:
		}
		for i := range vals {
			if vals[i] != vals[0] {
				getsOk[i] = false
			}
		}
	})
	return
}

// stressCancelAttribution: real time. Cancel() races with a zero-delay retry loop; every execution that ends
// cancelled must report ErrExecutionCanceled (finding F3: context.Canceled slipped through).
func stressCancelAttribution(trials int) (bad int) {
	// unlimited retries: only the cancellation ends the execution.  Should Cancel() ever fail to, a kill switch (an abort
	// condition) ends the trial after two seconds, and the loop stops after three such trials
	var kill atomic.Bool
	rp := retrypolicy.Builder[int]().WithMaxRetries(-1).AbortIf(func(int, error) bool { return kill.Load() }).Build()
	var sink atomic.Int64
	stuck := 0
	for i := 0; i < trials && stuck < 3; i++ {
		ar := failsafe.NewExecutor[int](rp).WithContext(context.Background()).GetAsync(func() (int, error) { return 0, errors.New("fail") })
		for j := 0; j < (i%97)*25; j++ { // vary the instant of the cancellation relative to the retry loop
			sink.Add(1)
		}
		ar.Cancel()
		select {
		case <-ar.Done():
		case <-time.After(2 * time.Second):
			stuck++
			kill.Store(true)
			<-ar.Done()
			kill.Store(false)
		}
		_, err := ar.Get()
		if !errors.Is(err, failsafe.ErrExecutionCanceled) {
			bad++
		}
	}
	return
}

// stressIsDone: real time. A poller that sees IsDone() true must find Done() closed (finding F4).
func stressIsDone(trials int) (bad int) {
	for i := 0; i < trials; i++ {
		ar := failsafe.NewExecutor[int]().GetAsync(func() (int, error) { return 1, nil })
		for !ar.IsDone() {
		}
		select {
		case <-ar.Done():
		default:
			bad++
		}
		ar.Get()
	}
	return
}

func TestDrive_C15(t *testing.T) {
	w := NewCaseWriter(t, "C15", "FS.Corr.C15")
	w.shardCap = envInt("VERIF_SHARD", 60)
	w.Extra = "Definition K := Eval vm_compute in skipped_ids cases.\nPrint K.\n"
	rng := NewRng(envSeed())
	thorough := envTier() == "thorough"
	asyncEntries := []string{"GetAsync", "GetWithExecutionAsync", "RunAsync", "RunWithExecutionAsync"}

	addExec := func(inst InstD, reqs []ReqD, tag string) {
		obs, start := runHistory(t, inst, reqs)
		rs := make([]string, len(reqs))
		os := make([]string, len(obs))
		nontrivial := false
		for i, rq := range reqs {
			rs[i] = rq.Gallina()
			os[i] = obs[i].Gallina()
			w.Stat("entry=" + rq.Entry)
			if rq.ExtKind == "AsyncCancel" && rq.ExtT > 0 {
				w.Stat("async_cancel")
				if errors.Is(obs[i].Err, failsafe.ErrExecutionCanceled) {
					w.Stat("reported_ErrExecutionCanceled")
					nontrivial = true
				}
			}
			if obs[i].Invoked > 1 {
				nontrivial = true
			}
		}
		w.Stat("gen=" + tag)
		il, rl, ol := inst.Gallina(), gList(rs), gList(os)
		w.Add(func(id int) string {
			return fmt.Sprintf("CaseExec (mk_hcase %d %d\n  %s\n  %s\n  %s)", id, start, il, rl, ol)
		}, map[string]any{"instances": il, "requests": strings.Join(rs, " ;; "), "observed": strings.Join(os, " ;; ")}, nontrivial, il+rl)
	}

	// 1. sync vs async on the same scenario, and Cancel() swept over the run's own event instants
	pf := execProfile{name: "C15", kinds: []string{"Retry", "Retry", "Fallback", "Breaker", "Bulkhead", "Limiter", "Cache", "Timeout"}, hedgePct: 20, maxDepth: 3, mustHave: "Retry", coopPct: 60, maxReqs: 1}
	n := 90
	if thorough {
		n = 3000
	}
	for i := 0; i < n; i++ {
		inst, reqs := genExecHistory(rng, pf)
		if !boundedScript(reqs) {
			continue
		}
		rq := reqs[0]
		rq.Gap = 0
		rq.ExtT = 0
		we := rng.Bool()
		syncEntry, asyncEntry := "Get", "GetAsync"
		if we {
			syncEntry, asyncEntry = "GetWithExecution", "GetWithExecutionAsync"
		}
		if rng.Chance(30) {
			syncEntry, asyncEntry = strings.Replace(syncEntry, "Get", "Run", 1), strings.Replace(asyncEntry, "Get", "Run", 1)
			for k := range rq.Script {
				rq.Script[k].Out.R = 0
				if rq.Script[k].Coop != nil {
					c := *rq.Script[k].Coop
					c.R = 0
					rq.Script[k].Coop = &c
				}
			}
		}
		if !we {
			for k := range rq.Script {
				rq.Script[k].Coop = nil
			}
		}
		rs, ra := rq, rq
		rs.Entry, ra.Entry = syncEntry, asyncEntry
		addExec(inst, []ReqD{rs}, "sync")
		base, start := runHistory(t, inst, []ReqD{ra})
		addExec(inst, []ReqD{ra}, "async")
		if base[0].Res != 0 || base[0].Err != nil {
			_ = start
		}
		var times []int64
		for _, ev := range base[0].Events {
			if k := strings.LastIndex(ev, "e_time := "); k >= 0 {
				var tm int64
				fmt.Sscanf(ev[k+len("e_time := "):], "%d", &tm)
				times = append(times, tm-start)
			}
		}
		times = append(times, base[0].End-start)
		for v := 0; v < 3; v++ {
			tc := Pick(rng, times) + Pick(rng, []int64{-1, 1, 1})
			if rng.Chance(35) && len(times) > 1 {
				tc = (Pick(rng, times) + Pick(rng, times)) / 2
			}
			if tc <= 0 {
				tc = 1
			}
			rc := ra
			rc.ExtT, rc.ExtKind = tc, "AsyncCancel"
			addExec(inst, []ReqD{rc}, "cancel-sweep")
		}
	}
	// 1b. a Timeout inside the retry (or around a hedged function): an attempt times out, and Cancel() arrives while the
	// retry delay is pending, i.e. before the next attempt is initialised
	m := 24
	if thorough {
		m = 600
	}
	for i := 0; i < m; i++ {
		limit := int64(2+rng.Intn(5))*1024 + 512
		delay := Pick(rng, []int64{4096, 8192})
		stack := []PolD{{K: "Retry", MaxRetries: int64(2 + rng.Intn(2)), Delay: delay}}
		if rng.Chance(30) {
			stack = append(stack, PolD{K: "Breaker", Inst: 0})
		}
		stack = append(stack, PolD{K: "Timeout", Limit: limit})
		inst := InstD{Breakers: [][]BCallD{{{K: "FailureThreshold", A: 50}, {K: "Delay", A: 4096 + 128}}}}
		coop := OutD{R: -5, Err: &ErrD{K: "Sent", A: 2}}
		first := FnStepD{Out: OutD{R: 1}, Dur: limit + 2048, Coop: &coop} // returns at the timeout: the retry delay starts at [limit]
		rq := ReqD{Stack: stack, CtxKey: -1, Entry: Pick(rng, []string{"GetWithExecutionAsync", "RunWithExecutionAsync"}),
			Script: []FnStepD{first, {Out: OutD{R: 1}, Dur: 1024}}, ExtT: limit + 1 + int64(rng.Intn(int(delay-2))), ExtKind: "AsyncCancel"}
		if strings.HasPrefix(rq.Entry, "Run") {
			rq.Script[0].Out.R, rq.Script[1].Out.R = 0, 0
			c0 := coop
			c0.R = 0
			rq.Script[0].Coop = &c0
		}
		addExec(inst, []ReqD{rq}, "cancel-in-delay-after-timeout")
	}
	// Cancel() (and the other sources) while a retry policy's own failure listener runs -- also the listener of the attempt on
	// which the policy gives up (finding F17)
	m15 := 40
	if thorough {
		m15 = 1200
	}
	slowRetryListenerCancelled(rng, m15, addExec)
	// executions submitted under a context that is already done (all entry points, also stacks nothing in which looks at the
	// cancellation): the asynchronous execution is the synchronous one
	preCancelled(rng, m15, false, addExec)
	// 2. the future protocol under concurrent readers
	for _, entry := range asyncEntries {
		for _, nr := range []int{1, 2, 5, 16} {
			for _, failing := range []bool{false, true} {
				dur := Pick(rng, []time.Duration{time.Microsecond, 3 * time.Millisecond, time.Hour})
				gets, b1, b2, a1, a2, l := futureReaders(t, nr, entry, dur, failing)
				gs := make([]string, len(gets))
				for i, g := range gets {
					gs[i] = gBool(g)
				}
				nrr, gl := nr, gList(gs)
				w.Add(func(id int) string {
					return fmt.Sprintf("CaseFut %d %d %s %s %s %s %s %s", id, nrr, gl, gBool(b1), gBool(b2), gBool(a1), gBool(a2), gBool(l))
				}, map[string]any{"entry": entry, "readers": nr, "gets_returned_after_completion_with_equal_values": gets, "IsDone_before": b1, "Done_closed_before": b2,
					"IsDone_after": a1, "Done_closed_after": a2, "OnDone_ran_before_Done_closed": l}, nr >= 2, fmt.Sprint("fut", entry, nr, failing, dur))
				w.Stat("future_readers=" + bucket(nr))
			}
		}
	}
	// 3. real-time stress of the two sub-operation windows
	trials := 3000
	if thorough {
		trials = 100000
	}
	// (eight loops side by side: more interleavings per second, also on a loaded machine)
	var bad int
	{
		var mu sync.Mutex
		var wg sync.WaitGroup
		for g := 0; g < 8; g++ {
			wg.Add(1)
			go func() {
				defer wg.Done()
				b := stressCancelAttribution(4 * trials)
				mu.Lock()
				bad += b
				mu.Unlock()
			}()
		}
		wg.Wait()
	}
	w.Add(func(id int) string { return fmt.Sprintf("CaseStress %d 3 %d %d", id, 32*trials, bad) },
		map[string]any{"stress": "Cancel() against a zero-delay retry loop; bad = executions that ended cancelled but did not report ErrExecutionCanceled", "trials": trials, "bad": bad}, true, "stress-cancel")
	bad2 := stressIsDone(trials)
	w.Add(func(id int) string { return fmt.Sprintf("CaseStress %d 4 %d %d", id, trials, bad2) },
		map[string]any{"stress": "poll IsDone(), then non-blocking receive on Done(); bad = IsDone() true while Done() not closed", "trials": trials, "bad": bad2}, true, "stress-isdone")
	// 4. Cancel() lands while a hedged run is between two waits and the first attempt's result is already in the channel:
	// forced from the OnHedge listener, every round must report ErrExecutionCanceled
	rounds := 24
	if thorough {
		rounds = 400
	}
	bad3 := 0
	for i := 0; i < rounds; i++ {
		synctest.Test(t, func(t *testing.T) {
			var ar failsafe.ExecutionResult[int]
			release := make(chan struct{})
			hp := hedgepolicy.BuilderWithDelay[int](10 * time.Millisecond).WithMaxHedges(1).
				OnHedge(func(failsafe.ExecutionEvent[int]) {
					close(release)  // the first attempt returns now ...
					synctest.Wait() // ... and its result is in the channel
					ar.Cancel()
				}).Build()
			n := 0
			ar = failsafe.NewExecutor[int](hp).GetAsync(func() (int, error) {
				n++
				if n == 1 {
					<-release
					return 1, nil
				}
				time.Sleep(time.Millisecond)
				return 2, nil
			})
			if _, err := ar.Get(); !errors.Is(err, failsafe.ErrExecutionCanceled) {
				bad3++
			}
			time.Sleep(time.Second)
		})
	}
	w.Add(func(id int) string { return fmt.Sprintf("CaseStress %d 5 %d %d", id, rounds, bad3) },
		map[string]any{"scenario": "Cancel() from OnHedge while the first attempt's result is already pending; bad = rounds that did not report ErrExecutionCanceled", "rounds": rounds, "bad": bad3}, true, "cancel-vs-pending-hedge-result")
	// 5. the completion listener is still running: Done is open, IsDone is false and Get blocks until it has returned
	bad4, rounds4 := 0, 0
	for _, entry := range asyncEntries {
		for _, fails := range []bool{false, true} {
			rounds4++
			synctest.Test(t, func(t *testing.T) {
				gate := make(chan struct{})
				entered := false
				ex := failsafe.NewExecutor[int](retrypolicy.Builder[int]().WithMaxRetries(0).Build()).
					OnDone(func(failsafe.ExecutionDoneEvent[int]) { entered = true; <-gate })
				fn := func() (int, error) {
					if fails {
						return 0, errors.New("fail")
					}
					return 1, nil
				}
				var ar failsafe.ExecutionResult[int]
				switch entry {
				case "GetAsync":
					ar = ex.GetAsync(fn)
				case "GetWithExecutionAsync":
					ar = ex.GetWithExecutionAsync(func(failsafe.Execution[int]) (int, error) { return fn() })
				case "RunAsync":
					ar = ex.RunAsync(func() error { _, e := fn(); return e })
				default:
					ar = ex.RunWithExecutionAsync(func(failsafe.Execution[int]) error { _, e := fn(); return e })
				}
				got := false
				go func() { ar.Get(); got = true }()
				synctest.Wait() // everything is blocked: the listener on its gate, the reader in Get
				open := true
				select {
				case <-ar.Done():
					open = false
				default:
				}
				if !entered || ar.IsDone() || !open || got {
					bad4++
				}
				close(gate)
				<-ar.Done()
				synctest.Wait()
				if !ar.IsDone() || !got {
					bad4++
				}
			})
		}
	}
	w.Add(func(id int) string { return fmt.Sprintf("CaseStress %d 6 %d %d", id, rounds4, bad4) },
		map[string]any{"scenario": "the executor's OnDone listener blocks on a gate: meanwhile Done must be open, IsDone false and Get blocked (all four async entry points, success and failure); bad = rounds in which that did not hold", "rounds": rounds4, "bad": bad4}, true, "done-after-listeners")
	// one Executor that carries a context, used for several executions: ExecutionResult.Cancel() cancels ITS execution -- not
	// the executions started from the same Executor before (still in flight), after, or after a Cancel() on one already done
	bad5, rounds5 := 0, 0
	for _, entry := range asyncEntries {
		for _, pol := range []string{"retry", "hedge", "none"} {
			for _, mode := range []string{"cancel-first-then-run", "cancel-done-then-run", "cancel-older-of-two"} {
				rounds5++
				synctest.Test(t, func(t *testing.T) {
					var pols []failsafe.Policy[int]
					switch pol {
					case "retry":
						pols = append(pols, retrypolicy.Builder[int]().WithMaxRetries(1).Build())
					case "hedge":
						pols = append(pols, hedgepolicy.BuilderWithDelay[int](time.Hour).Build())
					}
					ctx, stop := context.WithCancel(context.Background())
					defer stop()
					ex := failsafe.NewExecutor[int](pols...).WithContext(ctx)
					start := func(dur time.Duration, v int) failsafe.ExecutionResult[int] {
						fn := func() (int, error) { time.Sleep(dur); return v, nil }
						switch entry {
						case "GetAsync":
							return ex.GetAsync(fn)
						case "GetWithExecutionAsync":
							return ex.GetWithExecutionAsync(func(failsafe.Execution[int]) (int, error) { return fn() })
						case "RunAsync":
							return ex.RunAsync(func() error { _, e := fn(); return e })
						default:
							return ex.RunWithExecutionAsync(func(failsafe.Execution[int]) error { _, e := fn(); return e })
						}
					}
					want := 42
					if strings.HasPrefix(entry, "Run") {
						want = 0
					}
					ok := func(ar failsafe.ExecutionResult[int]) bool { r, err := ar.Get(); return err == nil && r == want }
					switch mode {
					case "cancel-first-then-run":
						a := start(time.Second, 42)
						time.Sleep(time.Millisecond)
						a.Cancel()
						if _, err := a.Get(); !errors.Is(err, failsafe.ErrExecutionCanceled) && pol != "none" {
							bad5++ // (without a policy nothing looks at the cancellation: the function's result comes back)
						}
						if !ok(start(time.Millisecond, 42)) {
							bad5++
						}
						// ... and a synchronous one on the same Executor
						if r, err := ex.Get(func() (int, error) { return 42, nil }); err != nil || r != 42 {
							bad5++
						}
					case "cancel-done-then-run":
						a := start(time.Millisecond, 42)
						if !ok(a) {
							bad5++
						}
						a.Cancel() // documented: no effect on an execution that is done
						if !ok(start(time.Millisecond, 42)) {
							bad5++
						}
					default:
						a := start(time.Second, 42)
						time.Sleep(time.Millisecond)
						b := start(time.Second, 42)
						time.Sleep(time.Millisecond)
						a.Cancel()
						if !ok(b) {
							bad5++
						}
					}
					if ctx.Err() != nil {
						bad5++ // the caller's own context is never cancelled by the library
					}
					time.Sleep(time.Minute) // functions of cancelled executions run on to their end
					synctest.Wait()
				})
			}
		}
	}
	w.Add(func(id int) string { return fmt.Sprintf("CaseStress %d 7 %d %d", id, rounds5, bad5) },
		map[string]any{"scenario": "one Executor carrying a context, used for several executions (all four async entry points; retry / hedge / no policy): Cancel() on the first execution then a later async and a sync one; Cancel() on an execution already done then a later one; two in flight, the older one cancelled. Every execution that was not cancelled must return what the synchronous execution returns; bad = violations", "rounds": rounds5, "bad": bad5}, true, "executor-context-reuse")
	// Cancel() issued from inside a retry policy's listener (user code cancelling its own execution: a watchdog in OnRetry, a
	// budget check in OnFailure): no wait or function is in progress, the next thing entered is the policy inside
	bad6, rounds6 := 0, 0
	for _, entry := range asyncEntries {
		for _, inner := range []string{"none", "hedge", "timeout", "fallback", "retry"} {
			for _, where := range []string{"OnRetry", "OnRetryScheduled", "OnFailure"} {
				rounds6++
				synctest.Test(t, func(t *testing.T) {
					arc := make(chan failsafe.ExecutionResult[int], 1)
					fired := false
					cancelOnce := func() {
						if !fired {
							fired = true
							ar := <-arc
							ar.Cancel()
						}
					}
					rb := retrypolicy.Builder[int]().WithMaxRetries(3).WithDelay(time.Millisecond)
					switch where {
					case "OnRetry":
						rb = rb.OnRetry(func(failsafe.ExecutionEvent[int]) { cancelOnce() })
					case "OnRetryScheduled":
						rb = rb.OnRetryScheduled(func(failsafe.ExecutionScheduledEvent[int]) { cancelOnce() })
					default:
						rb = rb.OnFailure(func(failsafe.ExecutionEvent[int]) { cancelOnce() })
					}
					pols := []failsafe.Policy[int]{rb.Build()}
					switch inner {
					case "hedge":
						pols = append(pols, hedgepolicy.BuilderWithDelay[int](time.Hour).Build())
					case "timeout":
						pols = append(pols, timeout.With[int](time.Hour))
					case "fallback":
						pols = append(pols, fallback.BuilderWithResult[int](5).HandleErrors(errors.New("an error nothing returns")).Build())
					case "retry":
						pols = append(pols, retrypolicy.Builder[int]().WithMaxRetries(0).HandleErrors(errors.New("an error nothing returns")).Build())
					}
					calls := 0
					fn := func(e failsafe.Execution[int]) (int, error) {
						calls++
						if calls == 1 {
							return 0, errors.New("first attempt fails")
						}
						// a cooperating attempt: it returns when it is cancelled
						select {
						case <-e.Canceled():
							return 0, e.Context().Err()
						case <-time.After(time.Minute):
							return 0, errors.New("never cancelled")
						}
					}
					ex := failsafe.NewExecutor[int](pols...)
					var ar failsafe.ExecutionResult[int]
					switch entry {
					case "GetWithExecutionAsync", "GetAsync":
						ar = ex.GetWithExecutionAsync(fn)
					default:
						ar = ex.RunWithExecutionAsync(func(e failsafe.Execution[int]) error { _, err := fn(e); return err })
					}
					arc <- ar
					if _, err := ar.Get(); !errors.Is(err, failsafe.ErrExecutionCanceled) {
						bad6++
					}
					time.Sleep(time.Hour * 2)
					synctest.Wait()
				})
			}
		}
	}
	w.Add(func(id int) string { return fmt.Sprintf("CaseStress %d 8 %d %d", id, rounds6, bad6) },
		map[string]any{"scenario": "Cancel() issued from inside a retry policy's own listener (OnRetry / OnRetryScheduled / OnFailure) with nothing, a hedge policy, a Timeout, a fallback or another retry policy inside it; the attempt that follows returns as soon as it is cancelled: the caller gets ErrExecutionCanceled; bad = rounds in which it did not", "rounds": rounds6, "bad": bad6}, true, "cancel-from-listener")
	w.Stat(fmt.Sprintf("stress_trials=%d", 2*trials))
	w.Close("(1) every scenario is run through a sync entry point and through the matching async entry point (result read with Get), then re-run asynchronously with ExecutionResult.Cancel() fired at instants taken from the run's own event times (+-1ns, midpoints); complete logs compared with the model; (2) the future protocol with 1-16 concurrent readers (Get / Result+Error / Done then Get) arriving before and around completion, for all four async entry points, successful and failing executions; (3) real-time stress of the Cancel-vs-InitializeRetry window and of the IsDone-vs-Done window; (4) one context-carrying Executor reused for several executions with Cancel() in between. Non-trivial = a retry or a reported cancellation occurred, two or more readers, or a stress batch; distinct by inputs.", nil)
}
