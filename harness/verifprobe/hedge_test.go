//go:build verif

package verifprobe

import (
	"encoding/json"
	"errors"
	"fmt"
	"os"
	"path/filepath"
	"sync"
	"testing"
	"time"

	"github.com/failsafe-go/failsafe-go"
	"github.com/failsafe-go/failsafe-go/hedgepolicy"
	"github.com/failsafe-go/failsafe-go/retrypolicy"
)

// C09 in real time, with the time package's semantics of the library's own module: a hedge policy that is re-entered by an
// enclosing retry policy starts hedge k of EVERY run no earlier than k delays after that run began.  (Under the newer timer
// semantics the main harness runs with, a timer that is re-used without being drained cannot deliver a stale tick, so a
// hedge policy that keeps one timer across runs looks fine there.)
func TestHedgeSpacingProbes(t *testing.T) {
	const hedgeDelay = 40 * time.Millisecond
	type obs struct {
		Scenario   string  `json:"scenario"`
		Runs       int     `json:"hedged_runs"`
		Hedges     int     `json:"hedges_started"`
		EarliestMs float64 `json:"earliest_hedge_after_run_start_ms"`
	}
	var out []obs
	var direct []map[string]any
	for _, sc := range []struct {
		name       string
		attempt    time.Duration // how long every attempt takes (it fails)
		retryDelay time.Duration
	}{
		{"runs end during the hedge delay, retry delay longer than the rest of it", 5 * time.Millisecond, 60 * time.Millisecond},
		{"attempts outlast two hedge delays", 100 * time.Millisecond, 10 * time.Millisecond},
	} {
		var mu sync.Mutex
		var runStart time.Time
		runs, hedges := 0, 0
		earliest := time.Hour
		hp := hedgepolicy.BuilderWithDelay[int](hedgeDelay).WithMaxHedges(2).
			OnHedge(func(e failsafe.ExecutionEvent[int]) {
				mu.Lock()
				defer mu.Unlock()
				hedges++
				if d := time.Since(runStart); d < earliest {
					earliest = d
				}
			}).Build()
		rp := retrypolicy.Builder[int]().WithMaxRetries(3).WithDelay(sc.retryDelay).Build()
		for i := 0; i < 3; i++ {
			failsafe.NewExecutor[int](rp, hp).GetWithExecution(func(e failsafe.Execution[int]) (int, error) {
				if !e.IsHedge() {
					mu.Lock()
					runStart = time.Now()
					runs++
					mu.Unlock()
				}
				time.Sleep(sc.attempt)
				return 0, errors.New("failed")
			})
			time.Sleep(150 * time.Millisecond) // losing attempts finish
		}
		mu.Lock()
		o := obs{sc.name, runs, hedges, float64(earliest) / float64(time.Millisecond)}
		if hedges == 0 {
			o.EarliestMs = -1
		}
		mu.Unlock()
		out = append(out, o)
		if sc.attempt < hedgeDelay/2 && 2*hedges >= runs {
			// every run is over long before the hedge delay has elapsed: no hedge may start at all (a loaded machine can stretch a
			// single 5 ms attempt past the delay, so a stray hedge or two is not held against the library)
			direct = append(direct, map[string]any{"kind": "direct", "key": "hedge-started-early:" + sc.name,
				"text": fmt.Sprintf("hedge probe '%s': %d hedges started in %d runs that each ended %v after they began, long before the hedge delay of %v (retry policy around a hedge policy, real time, the library module's own time semantics)", sc.name, hedges, runs, sc.attempt, hedgeDelay),
				"runs": runs, "hedges": hedges})
		} else if hedges > 0 && earliest < hedgeDelay-5*time.Millisecond {
			direct = append(direct, map[string]any{"kind": "direct", "key": "hedge-started-early:" + sc.name,
				"text": fmt.Sprintf("hedge probe '%s': a hedge started %.1f ms after its run began, before the hedge delay of %v had elapsed (retry policy around a hedge policy, real time, the library module's own time semantics)", sc.name, o.EarliestMs, hedgeDelay),
				"runs": runs, "hedges": hedges})
		}
	}
	dir := os.Getenv("VERIF_OUT")
	if dir == "" {
		t.Fatal("VERIF_OUT not set")
	}
	jb, _ := json.MarshalIndent(out, "", " ")
	if err := os.WriteFile(filepath.Join(dir, "probe_hedge_spacing.json"), jb, 0o644); err != nil {
		t.Fatal(err)
	}
	if len(direct) > 0 {
		jb, _ = json.Marshal(direct)
		if err := os.WriteFile(filepath.Join(dir, "direct_hedge_spacing.json"), jb, 0o644); err != nil {
			t.Fatal(err)
		}
	}
}
