//go:build verif

// Package verifprobe holds the probes that must run with the time package's semantics of the library's own module
// (go.mod says go 1.21: a timer that is not stopped stays in the runtime's heap until it fires).  The main harness
// switches to the newer semantics (//go:debug asynctimerchan=0, needed by testing/synctest), under which an abandoned
// timer is simply collected -- so it cannot see a policy that forgets to stop one.
package verifprobe

import (
	"context"
	"encoding/json"
	"errors"
	"fmt"
	"os"
	"path/filepath"
	"runtime"
	"testing"
	"time"

	"github.com/failsafe-go/failsafe-go"
	"github.com/failsafe-go/failsafe-go/bulkhead"
	"github.com/failsafe-go/failsafe-go/hedgepolicy"
	"github.com/failsafe-go/failsafe-go/ratelimiter"
	"github.com/failsafe-go/failsafe-go/retrypolicy"
	"github.com/failsafe-go/failsafe-go/timeout"
)

// hookCtx calls f at the n-th evaluation of Done().
type hookCtx struct {
	context.Context
	calls *int
	at    int
	f     func()
}

func (h hookCtx) Done() <-chan struct{} {
	*h.calls++
	if *h.calls == h.at {
		h.f()
	}
	return h.Context.Done()
}

func liveObjects() uint64 {
	runtime.GC()
	runtime.GC()
	var ms runtime.MemStats
	runtime.ReadMemStats(&ms)
	return ms.HeapObjects
}

// Each probe runs one kind of execution thousands of times in real time -- none of them sleeps: every delay, limit and
// wait is an hour and is cut short or never reached -- and compares the number of live heap objects before and after.
func TestTimerProbes(t *testing.T) {
	n := 3000
	if os.Getenv("VERIF_TIER") == "thorough" {
		n = 30000
	}
	errFail := errors.New("fail")
	probes := []struct {
		name string
		run  func()
	}{
		{"retry delay cut short by the cancellation of the context", func() {
			ctx, cancel := context.WithCancel(context.Background())
			rp := retrypolicy.Builder[int]().WithDelay(time.Hour).OnRetryScheduled(func(failsafe.ExecutionScheduledEvent[int]) { cancel() }).Build()
			failsafe.NewExecutor[int](rp).WithContext(ctx).Get(func() (int, error) { return 0, errFail })
		}},
		{"bulkhead wait that ends with the permit", func() {
			bh := bulkhead.Builder[int](1).WithMaxWaitTime(time.Hour).Build()
			bh.TryAcquirePermit()
			calls := 0
			ctx := hookCtx{Context: context.Background(), calls: &calls, at: 2, f: bh.ReleasePermit}
			if err := bh.AcquirePermitWithMaxWait(ctx, time.Hour); err == nil {
				bh.ReleasePermit()
			}
		}},
		{"bulkhead wait cut short by the cancellation of the context", func() {
			bh := bulkhead.Builder[int](1).WithMaxWaitTime(time.Hour).Build()
			bh.TryAcquirePermit()
			cctx, cancel := context.WithCancel(context.Background())
			calls := 0
			ctx := hookCtx{Context: cctx, calls: &calls, at: 2, f: cancel}
			bh.AcquirePermitWithMaxWait(ctx, time.Hour)
		}},
		{"timeout whose function returns in time", func() {
			failsafe.NewExecutor[int](timeout.With[int](time.Hour)).Get(func() (int, error) { return 1, nil })
		}},
		{"timeout whose function returns the library's own ErrExceeded in time (a nested execution's timeout)", func() {
			failsafe.NewExecutor[int](timeout.With[int](time.Hour)).Get(func() (int, error) { return 0, timeout.ErrExceeded })
		}},
		{"timeout around a retry policy whose attempts fail in time", func() {
			failsafe.NewExecutor[int](timeout.With[int](time.Hour), retrypolicy.Builder[int]().WithMaxRetries(1).Build()).Get(func() (int, error) { return 0, fmt.Errorf("wrapped: %w", timeout.ErrExceeded) })
		}},
		{"hedge whose first attempt returns before the hedge delay", func() {
			failsafe.NewExecutor[int](hedgepolicy.BuilderWithDelay[int](time.Hour).Build()).Get(func() (int, error) { return 1, nil })
		}},
		{"rate limiter wait cut short by the cancellation of the context", func() {
			rl := ratelimiter.SmoothBuilderWithMaxRate[int](time.Hour).WithMaxWaitTime(2 * time.Hour).Build()
			rl.TryAcquirePermit()
			cctx, cancel := context.WithCancel(context.Background())
			calls := 0
			ctx := hookCtx{Context: cctx, calls: &calls, at: 1, f: cancel}
			rl.AcquirePermitWithMaxWait(ctx, 2*time.Hour)
		}},
	}
	type measurement struct {
		Probe      string `json:"probe"`
		Executions int    `json:"executions"`
		Growth     int64  `json:"live_object_growth"`
	}
	var ms []measurement
	var direct []map[string]any
	for _, p := range probes {
		p.run() // warm up
		before := liveObjects()
		for i := 0; i < n; i++ {
			p.run()
		}
		growth := int64(liveObjects()) - int64(before)
		ms = append(ms, measurement{p.name, n, growth})
		if growth > int64(n)/2 {
			direct = append(direct, map[string]any{"kind": "direct", "key": "timer-left-armed:" + p.name,
				"text":  fmt.Sprintf("timer probe '%s': %d executions left %d live heap objects behind (a timer still armed after its execution completed, under the library module's own time semantics)", p.name, n, growth),
				"probe": p.name, "executions": n, "live_object_growth": growth})
		}
	}
	out := os.Getenv("VERIF_OUT")
	if out == "" {
		t.Fatal("VERIF_OUT not set")
	}
	jb, _ := json.MarshalIndent(ms, "", " ")
	if err := os.WriteFile(filepath.Join(out, "probe_timers.json"), jb, 0o644); err != nil {
		t.Fatal(err)
	}
	if len(direct) > 0 {
		jb, _ = json.Marshal(direct)
		if err := os.WriteFile(filepath.Join(out, "direct_timers.json"), jb, 0o644); err != nil {
			t.Fatal(err)
		}
	}
}
