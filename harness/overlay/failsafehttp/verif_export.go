//go:build verif

package failsafehttp

import "io"

// BodyReaderForVerif exposes bodyReader to the verification harness (add-only, build tag verif, injected with -overlay).
func BodyReaderForVerif(untypedBody any) (func() (io.Reader, error), error) { return bodyReader(untypedBody) }
